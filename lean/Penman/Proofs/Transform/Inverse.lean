/-
  Penman.Proofs.Transform.Inverse — dereifying a reified graph restores the
  triples and the top (C11, triples level).
-/
import Penman.Proofs.Transform.ReifyProps
namespace Penman

/-! ### marker helpers -/

theorem findSome_push_mem {l : List Epi} {p : Str}
    (h : l.findSome? (fun | .push v => some v | _ => none) = some p) : Epi.push p ∈ l := by
  induction l with
  | nil => simp at h
  | cons e r ih =>
    rw [List.findSome?_cons] at h
    cases e with
    | push v => simp only [Option.some.injEq] at h; subst h; simp
    | pop => exact List.mem_cons_of_mem _ (ih h)
    | roleAln a b => exact List.mem_cons_of_mem _ (ih h)
    | aln a b => exact List.mem_cons_of_mem _ (ih h)

theorem mem_edgeMarkers_snd {old : List Epi} {e : Epi} (h : e ∈ (edgeMarkers old).2) : e ∈ old := by
  simp only [edgeMarkers, reifiedMarkers, List.mem_append, List.mem_filter] at h
  rcases h with (h | h) | h
  · exact h.1
  · cases hl : (old.filter (·.isPush)).getLast? with
    | none => rw [hl] at h; simp at h
    | some q =>
      rw [hl] at h
      simp only [List.mem_singleton] at h
      subst h
      exact (List.mem_filter.mp (List.mem_of_getLast? hl)).1
  · exact h.1

theorem pushesIn_nil (vars : List Str) : pushesIn vars [] = true := rfl

/-! ### the computation of `Model.dereify` on a reification -/

theorem dereify_reified {m : Model} (hm : ReifWf m) {t : Triple} {rf : Reif} (v : Str) (inv : Bool)
    (hf : m.reifs.find? (·.role = t.role) = some rf) (hu : Unambiguous m t.role) :
    m.dereify (nodeTriple rf v) (firstTriple t rf v inv) (lastTriple t rf v inv) =
      .ok (.str t.src, t.role, t.tgt) := by
  have hmem := List.mem_of_find?_eq_some hf
  have hrf := hm.1 rf hmem
  unfold Unambiguous at hu
  rw [hf] at hu
  simp only at hu
  have hds : (m.reifs.filter (·.concept = rf.concept)).isEmpty = false := by
    cases hl : m.reifs.filter (·.concept = rf.concept) with
    | nil =>
      have : rf ∈ m.reifs.filter (·.concept = rf.concept) := by simp [hmem]
      rw [hl] at this; simp at this
    | cons _ _ => rfl
  unfold Model.dereify
  have h1 : ¬ (nodeTriple rf v).role ≠ CONCEPT_ROLE := by simp [nodeTriple]
  rw [if_neg h1]
  have h2 : ¬¬ ((nodeTriple rf v).src = (firstTriple t rf v inv).src ∧
      (firstTriple t rf v inv).src = (lastTriple t rf v inv).src) := by simp
  rw [if_neg h2]
  have hds' : (m.reifs.filter (·.concept = (nodeTriple rf v).tgt)).isEmpty = false := hds
  have hu' : derefLookup rf.source rf.target (m.reifs.filter (·.concept = (nodeTriple rf v).tgt))
      = some (false, t.role) := hu
  simp only [hds', Bool.false_eq_true, if_false, dereifyLoop_eq]
  cases inv
  · simp only [firstTriple, lastTriple, inTriple, outTriple, Bool.false_eq_true, if_false, hu',
      Option.map_some]
  · simp only [firstTriple, lastTriple, inTriple, outTriple, if_true,
      derefLookup_swap hrf.2.2.2.2.1, hu', Option.map_some, Bool.not_false]

/-! ### transfer of a skipped agenda entry -/

theorem entryRes_skip_transfer {m : Model} {g g' : Graph} {x : Str} {i0 a b : Triple}
    (h1 : otherOf g.triples x = [a, b]) (h1' : otherOf g'.triples x = [a, b])
    (h2 : Atom.str x ∉ (agendaScan g).1) (h3 : getPushedVariable g' b = getPushedVariable g b)
    (h4 : ∀ s, s ∈ g'.variables → (Atom.str s = a.tgt ∨ Atom.str s = b.tgt) → s ∈ g.variables)
    (hs : entryRes m g x i0 = .skip) : entryRes m g' x i0 = .skip := by
  unfold entryRes at hs ⊢
  rw [h1] at hs
  rw [h1']
  simp only at hs ⊢
  by_cases hc : Atom.str x ∉ (agendaScan g').1 ∧ m.isDereifiable i0.tgt = true
  · have hc0 : Atom.str x ∉ (agendaScan g).1 ∧ m.isDereifiable i0.tgt = true := ⟨h2, hc.2⟩
    rw [if_pos hc]
    rw [if_pos hc0] at hs
    rw [h3]
    have key : ∀ (f s2 : Triple), ((f = a ∧ s2 = b) ∨ (f = b ∧ s2 = a)) →
        (match m.dereify i0 f s2 with
          | .error .model => EntryRes.skip
          | .error e => .err e
          | .ok (.str s, role, tgt) =>
            if s ∈ g.variables then .add ⟨x, f, ⟨s, role, tgt⟩, agendaEpis g i0 s2⟩ else .skip
          | .ok _ => .skip) = EntryRes.skip →
        (match m.dereify i0 f s2 with
          | .error .model => EntryRes.skip
          | .error e => .err e
          | .ok (.str s, role, tgt) =>
            if s ∈ g'.variables then .add ⟨x, f, ⟨s, role, tgt⟩, agendaEpis g' i0 s2⟩ else .skip
          | .ok _ => .skip) = EntryRes.skip := by
      intro f s2 hfs hs'
      cases hd : m.dereify i0 f s2 with
      | error e =>
        rw [hd] at hs'
        cases e <;> first | rfl | (simp at hs')
      | ok r =>
        rw [hd] at hs'
        obtain ⟨src, role, tgt⟩ := r
        cases src with
        | none => rfl
        | num n => rfl
        | str s =>
          simp only at hs' ⊢
          have hsg : s ∉ g.variables := by
            intro hin; rw [if_pos hin] at hs'; simp at hs'
          have hsp := (dereify_ok_spec hd).1
          simp only at hsp
          have : s ∉ g'.variables := by
            intro hin
            apply hsg
            apply h4 s hin
            rcases hfs with ⟨rfl, rfl⟩ | ⟨rfl, rfl⟩ <;> rcases hsp with ⟨e1, _⟩ | ⟨e1, _⟩
            · left; exact e1
            · right; exact e1
            · right; exact e1
            · left; exact e1
          rw [if_neg this]
    by_cases hp : getPushedVariable g b = some x
    · simp only [hp, if_true] at hs ⊢
      exact key b a (Or.inr ⟨rfl, rfl⟩) hs
    · simp only [hp, if_false] at hs ⊢
      exact key a b (Or.inl ⟨rfl, rfl⟩) hs
  · rw [if_neg hc]

/-! ### the reified graph seen by `dereify_edges` -/

section Inv
variable {m : Model} {g : Graph} {rev : List Ev} {st : RState}

theorem topAtom_reifyResult (hrun : Run m g rev st) (ho : rev.reverse.map Ev.orig = g.triples) :
    topAtom (reifyResult g st) = topAtom g := by
  unfold topAtom; rw [reifyResult_getTop hrun ho]

theorem fixed_reify_iff (hm : ReifWf m) (hg : RolesColon g) (hrun : Run m g rev st)
    (ho : rev.reverse.map Ev.orig = g.triples) (a : Atom) :
    a ∈ (agendaScan (reifyResult g st)).1 ↔
      a = topAtom g ∨ ∃ t1 ∈ rev.reverse.flatMap Ev.out, t1.role ≠ CONCEPT_ROLE ∧ t1.tgt = a := by
  rw [agendaScan_fixed, topAtom_reifyResult hrun ho, reifyResult_triples hm hg hrun]

theorem evOk_rev (hrun : Run m g rev st) : ∀ e ∈ rev.reverse, EvOk m g e :=
  fun e he => run_evOk hrun e (by simpa using he)

/-- a new variable is not referenced and is not the top -/
theorem new_not_fixed (hm : ReifWf m) (hg : RolesColon g) (hf : FreshSafe g) (hrun : Run m g rev st)
    (ho : rev.reverse.map Ev.orig = g.triples) {v : Str} (hv : v ∈ rev.flatMap Ev.newVar) :
    Atom.str v ∉ (agendaScan (reifyResult g st)).1 := by
  obtain ⟨hnv, hgen⟩ := (run_newVars hrun).2 v hv
  rw [fixed_reify_iff hm hg hrun ho]
  rintro (h | ⟨t1, h1, hr, htgt⟩)
  · unfold topAtom at h
    cases ht : g.getTop with
    | none => rw [ht] at h; simp at h
    | some x =>
      rw [ht] at h
      simp only [Atom.str.injEq] at h
      exact hnv (h ▸ getTop_mem_variables ht)
  · rcases tgt_of_flatMap_out hm (evOk_rev hrun) h1 hr with ⟨t, ht, hr', htt⟩ | ⟨t, ht, htt⟩
    · exact hnv (freshSafe_tgt hf ht hr' (htt.trans htgt) hgen)
    · rw [htgt] at htt
      simp only [Atom.str.injEq] at htt
      exact hnv (htt ▸ src_mem_variables ht)

/-- what was referenced (or the top) stays so -/
theorem old_fixed_stays (hm : ReifWf m) (hg : RolesColon g) (hrun : Run m g rev st)
    (ho : rev.reverse.map Ev.orig = g.triples) {a : Atom} (h : a ∈ (agendaScan g).1) :
    a ∈ (agendaScan (reifyResult g st)).1 := by
  rw [fixed_reify_iff hm hg hrun ho]
  rw [agendaScan_fixed] at h
  rcases h with h | ⟨t, ht, hr, htgt⟩
  · left; exact h
  · right
    obtain ⟨t1, h1, hr1, htgt1⟩ := tgt_kept hm (evOk_rev hrun) (ho ▸ ht) hr
    exact ⟨t1, h1, hr1, htgt1.trans htgt⟩

/-- the source of a reified relation is referenced afterwards -/
theorem reified_src_fixed (hm : ReifWf m) (hg : RolesColon g) (hrun : Run m g rev st)
    (ho : rev.reverse.map Ev.orig = g.triples) {t rf v inv} (he : Ev.reif t rf v inv ∈ rev) :
    Atom.str t.src ∈ (agendaScan (reifyResult g st)).1 := by
  rw [fixed_reify_iff hm hg hrun ho]
  right
  exact src_reified_is_tgt hm (evOk_rev hrun) (by simpa using he)

/-- position of a reification event: its variable occurs in no other event -/
theorem reif_split (hrun : Run m g rev st) {t rf v inv} (he : Ev.reif t rf v inv ∈ rev) :
    ∃ post pre, rev = post ++ .reif t rf v inv :: pre ∧
      (∀ e ∈ post, v ∉ e.newVar) ∧ (∀ e ∈ pre, v ∉ e.newVar) := by
  obtain ⟨post, pre, rfl⟩ := List.append_of_mem he
  refine ⟨post, pre, rfl, ?_, ?_⟩
  · intro e hepost hv
    have hn := (run_newVars hrun).1
    simp only [List.flatMap_append, List.flatMap_cons, Ev.newVar] at hn
    rw [List.nodup_append] at hn
    exact hn.2.2 v (List.mem_flatMap.mpr ⟨e, hepost, hv⟩) v (by simp) rfl
  · intro e hepre hv
    have hn := (run_newVars hrun).1
    simp only [List.flatMap_append, List.flatMap_cons, Ev.newVar] at hn
    rw [List.nodup_append] at hn
    have := hn.2.1
    simp only [List.singleton_append, List.nodup_cons] at this
    exact this.1 (List.mem_flatMap.mpr ⟨e, hepre, hv⟩)

theorem new_not_var (hrun : Run m g rev st) {t rf v inv} (he : Ev.reif t rf v inv ∈ rev) :
    v ∉ g.variables ∧ isGenName v = true :=
  (run_newVars hrun).2 v (List.mem_flatMap.mpr ⟨Ev.reif t rf v inv, he, by simp [Ev.newVar]⟩)

/-- the relations and the instance triple of a new variable -/
theorem new_triples (hm : ReifWf m) (hg : RolesColon g) (hrun : Run m g rev st)
    {t rf v inv} (he : Ev.reif t rf v inv ∈ rev) :
    otherOf (reifyResult g st).triples v = [firstTriple t rf v inv, lastTriple t rf v inv] ∧
    instOf (reifyResult g st).triples v = [nodeTriple rf v] := by
  obtain ⟨post, pre, hrev, hpost, hpre⟩ := reif_split hrun he
  have hnv := (new_not_var hrun he).1
  have hok := run_evOk hrun
  rw [reifyResult_triples hm hg hrun, hrev]
  simp only [List.reverse_append, List.reverse_cons, List.append_assoc, List.singleton_append,
    List.flatMap_append, List.flatMap_cons, otherOf_append, instOf_append]
  have hokpre : ∀ e ∈ pre.reverse, EvOk m g e := fun e h' => hok e (by
    rw [hrev]; simp only [List.mem_append, List.mem_cons]; right; right; simpa using h')
  have hokpost : ∀ e ∈ post.reverse, EvOk m g e := fun e h' => hok e (by
    rw [hrev]; simp only [List.mem_append]; left; simpa using h')
  have hpre' := src_ne_of_flatMap_out hokpre hnv (fun e h' => hpre e (by simpa using h'))
  have hpost' := src_ne_of_flatMap_out hokpost hnv (fun e h' => hpost e (by simpa using h'))
  have e1 : otherOf (pre.reverse.flatMap Ev.out) v = [] := filter_src_nil hpre' _
  have e2 : otherOf (post.reverse.flatMap Ev.out) v = [] := filter_src_nil hpost' _
  have e3 : instOf (pre.reverse.flatMap Ev.out) v = [] := filter_src_nil hpre' _
  have e4 : instOf (post.reverse.flatMap Ev.out) v = [] := filter_src_nil hpost' _
  have heok := hok _ he
  rw [e1, e2, e3, e4, otherOf_reif hm heok, instOf_reif hm heok]
  simp

/-- the migrated markers on the last triple do not push the new variable -/
theorem last_not_pushed (hk : EpiKeysNodup g) (hp : PushVars g) (hrun : Run m g rev st)
    {t rf v inv} (he : Ev.reif t rf v inv ∈ rev) :
    getPushedVariable (reifyResult g st) (lastTriple t rf v inv) ≠ some v := by
  obtain ⟨post, pre, hrev, hpost, hpre⟩ := reif_split hrun he
  have hnv := (new_not_var hrun he).1
  have hok := run_evOk hrun
  have ht := (hok _ he).1
  have hts : t.src ≠ v := fun h => hnv (h ▸ src_mem_variables ht)
  have hsrc : ∀ e ∈ post, e.orig.src ≠ v := by
    intro e hepost h
    have : e.orig ∈ g.triples := by
      have := hok e (by rw [hrev]; simp [hepost])
      cases e with
      | keep t => exact this.1
      | reif t rf v inv => exact this.1
    exact hnv (h ▸ src_mem_variables this)
  unfold getPushedVariable
  rw [reifyResult_get? hk hrun, hrev, expEp_last hpost hsrc hts]
  have hold : expEp g pre t = if t ∈ pre.flatMap Ev.reified then none else AList.get? g.epidata t :=
    expEp_old (fun e hepre h => hpre e hepre (by
      exfalso
      have hn := (run_newVars hrun).2 t.src (by
        rw [hrev]; simp only [List.flatMap_append, List.flatMap_cons, List.mem_append]
        right; right; exact List.mem_flatMap.mpr ⟨e, hepre, h⟩)
      exact hn.1 (src_mem_variables ht)))
  have hpush : pushesIn g.variables ((expEp g pre t).getD []) = true := by
    rw [hold]
    split
    · rfl
    · exact hp t ht
  intro h
  simp only [Option.getD_some] at h
  have := pushesIn_mem hpush (mem_edgeMarkers_snd (findSome_push_mem h))
  exact hnv this

/-- the instance triples of `g` are kept by reification -/
theorem inst_kept (hm : ReifWf m) (hg : RolesColon g) (hrun : Run m g rev st)
    (ho : rev.reverse.map Ev.orig = g.triples) {t : Triple} (htg : t ∈ g.triples)
    (hc : t.role = CONCEPT_ROLE) : t ∈ (reifyResult g st).triples := by
  rw [← ho, List.mem_map] at htg
  obtain ⟨e, he, heo⟩ := htg
  cases e with
  | keep t' =>
    simp only [Ev.orig] at heo; subst heo
    rw [reifyResult_triples hm hg hrun]; exact List.mem_flatMap.mpr ⟨_, he, by simp [Ev.out]⟩
  | reif t' rf v inv =>
    simp only [Ev.orig] at heo; subst heo
    have := (evOk_reif (evOk_rev hrun _ he)).2.2.2
    rw [hc, hm.2] at this; simp at this

/-- with a node for every source, the sources of `g` stay variables -/
theorem old_src_var (hm : ReifWf m) (hg : RolesColon g) (hrun : Run m g rev st)
    (ho : rev.reverse.map Ev.orig = g.triples) (hi : HasInst g) :
    ∀ t ∈ g.triples, t.src ∈ (reifyResult g st).variables := by
  intro t ht
  obtain ⟨t', ht', hs, hc⟩ := hi t ht
  rw [← hs]
  exact src_mem_variables (inst_kept hm hg hrun ho ht' hc)

/-- the variables of the reified graph are old or new -/
theorem reify_vars_subset (hm : ReifWf m) (hg : RolesColon g) (hrun : Run m g rev st)
    (_ho : rev.reverse.map Ev.orig = g.triples) {x : Str} (hx : x ∈ (reifyResult g st).variables) :
    x ∈ g.variables ∨ x ∈ rev.flatMap Ev.newVar := by
  rw [mem_variables] at hx
  rcases hx with ⟨t1, h1, hs⟩ | htop
  · rw [reifyResult_triples hm hg hrun] at h1
    rcases mem_variables_flatMap_out (evOk_rev hrun) h1 with h | h
    · left; exact hs ▸ h
    · right
      rw [← hs]
      simp only [List.mem_flatMap] at h ⊢
      obtain ⟨e, he, hv⟩ := h
      exact ⟨e, by simpa using he, hv⟩
  · left
    rw [reifyResult_top] at htop
    exact getTop_mem_variables htop

/-- the agenda entry of a new variable: collapse it back to the original -/
theorem collapse_new (hm : ReifWf m) (hg : RolesColon g) (hk : EpiKeysNodup g) (hp : PushVars g)
    (hf : FreshSafe g) (hi : HasInst g) (hrun : Run m g rev st)
    (ho : rev.reverse.map Ev.orig = g.triples)
    (hu : ∀ t ∈ g.triples, m.isReifiable t.role = true → Unambiguous m t.role)
    {t rf v inv} (he : Ev.reif t rf v inv ∈ rev) :
    collapseOf m (reifyResult g st) v = some ⟨v, firstTriple t rf v inv, t,
      agendaEpis (reifyResult g st) (nodeTriple rf v) (lastTriple t rf v inv)⟩ := by
  have heok := run_evOk hrun _ he
  have hre := evOk_reif heok
  obtain ⟨hother, hinst⟩ := new_triples hm hg hrun he
  have hnf := new_not_fixed (v := v) hm hg hf hrun ho (List.mem_flatMap.mpr ⟨Ev.reif t rf v inv, he, by simp [Ev.newVar]⟩)
  have hnp := last_not_pushed hk hp hrun he
  have hder : m.isDereifiable (nodeTriple rf v).tgt = true := by
    simp only [Model.isDereifiable, nodeTriple, List.any_eq_true]
    exact ⟨rf, hre.2.1, by simp⟩
  unfold collapseOf
  rw [hinst]
  simp only [List.getLast?_singleton]
  unfold entryRes
  rw [hother]
  simp only
  rw [if_pos ⟨hnf, hder⟩]
  simp only [hnp, if_false]
  rw [dereify_reified hm v inv heok.2.1 (hu t hre.1 hre.2.2.2)]
  simp only
  rw [if_pos (old_src_var hm hg hrun ho hi t hre.1)]

/-- an old variable does not become collapsible -/
theorem collapse_old (hm : ReifWf m) (hg : RolesColon g) (hk : EpiKeysNodup g) (hf : FreshSafe g)
    (hrun : Run m g rev st) (ho : rev.reverse.map Ev.orig = g.triples)
    (hnc : dereifyAgenda m g = .ok []) {x : Str} (hx : ∀ e ∈ rev, x ∉ e.newVar) :
    ∀ i0, (instOf (reifyResult g st).triples x).getLast? = some i0 →
      entryRes m (reifyResult g st) x i0 = .skip := by
  intro i0 hi0
  have hok := evOk_rev hrun
  have hx' : ∀ e ∈ rev.reverse, x ∉ e.newVar := fun e h' => hx e (by simpa using h')
  have hinst : instOf (reifyResult g st).triples x = instOf g.triples x := by
    rw [reifyResult_triples hm hg hrun, instOf_flatMap_old hm hok hx', ho]
  have hother : otherOf (reifyResult g st).triples x =
      (otherOf g.triples x).filter (fun t => !m.isReifiable t.role) := by
    rw [reifyResult_triples hm hg hrun, otherOf_flatMap_old hok hx', ho]
  rw [hinst] at hi0
  -- the entry of `x` in `g` is skipped
  have hskip : entryRes m g x i0 = .skip := by
    have hmem : (x, i0) ∈ (agendaScan g).2.1 :=
      AList.mem_of_get? (by rw [agendaScan_inst]; exact hi0)
    exact dereifyAgenda_nil_iff.mp hnc (x, i0) hmem
  -- case analysis on the relations of `x` in the reified graph
  by_cases hfix : Atom.str x ∈ (agendaScan (reifyResult g st)).1
  · unfold entryRes
    split
    · rw [if_neg (fun h => h.1 hfix)]
    · rfl
  · -- no relation of `x` was reified
    have hnone : ∀ t ∈ otherOf g.triples x, m.isReifiable t.role = false := by
      intro t ht
      cases hr : m.isReifiable t.role with
      | false => rfl
      | true =>
        exfalso
        have htg : t ∈ g.triples ∧ t.src = x := by
          simp only [otherOf, List.mem_filter, decide_eq_true_eq] at ht
          exact ⟨ht.1, ht.2.2⟩
        rw [← ho, List.mem_map] at htg
        obtain ⟨⟨e, he, heo⟩, hsx⟩ := htg
        cases e with
        | keep t' =>
          have := (hok _ he).2
          simp only [Ev.orig] at heo
          subst heo
          rw [hr] at this; simp at this
        | reif t' rf v inv =>
          simp only [Ev.orig] at heo
          subst heo
          apply hfix
          rw [← hsx]
          exact reified_src_fixed hm hg hrun ho (by simpa using he)
    have hother' : otherOf (reifyResult g st).triples x = otherOf g.triples x := by
      rw [hother, List.filter_eq_self]
      intro t ht; simp [hnone t ht]
    have hfix0 : Atom.str x ∉ (agendaScan g).1 := fun h => hfix (old_fixed_stays hm hg hrun ho h)
    cases hl : otherOf g.triples x with
    | nil => unfold entryRes; rw [hother', hl]
    | cons a l1 =>
      cases l1 with
      | nil => unfold entryRes; rw [hother', hl]
      | cons b l2 =>
        cases l2 with
        | cons c l3 => unfold entryRes; rw [hother', hl]
        | nil =>
          have hb : b ∈ otherOf g.triples x := by rw [hl]; simp
          have hbg : b ∈ g.triples ∧ b.src = x := by
            simp only [otherOf, List.mem_filter, decide_eq_true_eq] at hb
            exact ⟨hb.1, hb.2.2⟩
          have hpush : getPushedVariable (reifyResult g st) b = getPushedVariable g b := by
            unfold getPushedVariable
            rw [reifyResult_get? hk hrun, expEp_old (by rw [hbg.2]; exact hx)]
            have : b ∉ rev.flatMap Ev.reified := by
              intro hmem
              rw [List.mem_flatMap] at hmem
              obtain ⟨e, he, hbe⟩ := hmem
              cases e with
              | keep t' => simp [Ev.reified] at hbe
              | reif t' rf v inv =>
                simp only [Ev.reified, List.mem_singleton] at hbe
                subst hbe
                have := (evOk_reif (run_evOk hrun _ he)).2.2.2
                rw [hnone b hb] at this; simp at this
            rw [if_neg this]
          have ha : a ∈ otherOf g.triples x := by rw [hl]; simp
          have h4 : ∀ s, s ∈ (reifyResult g st).variables →
              (Atom.str s = a.tgt ∨ Atom.str s = b.tgt) → s ∈ g.variables := by
            intro s hs hab
            rcases reify_vars_subset hm hg hrun ho hs with h | h
            · exact h
            · have hgen := ((run_newVars hrun).2 s h).2
              have ha' : a ∈ g.triples ∧ a.role ≠ CONCEPT_ROLE := by
                simp only [otherOf, List.mem_filter, decide_eq_true_eq] at ha
                exact ⟨ha.1, ha.2.1⟩
              have hb' : b ∈ g.triples ∧ b.role ≠ CONCEPT_ROLE := by
                simp only [otherOf, List.mem_filter, decide_eq_true_eq] at hb
                exact ⟨hb.1, hb.2.1⟩
              rcases hab with e | e
              · exact freshSafe_tgt hf ha'.1 ha'.2 e.symm hgen
              · exact freshSafe_tgt hf hb'.1 hb'.2 e.symm hgen
          exact entryRes_skip_transfer hl (hother'.trans hl) hfix0 hpush h4 hskip

end Inv

end Penman

/-
  The formatted text is woven from its token texts: between the token texts there are only
  spaces and line feeds (`Woven`, `Spec/TextWf.lean`).  Same mutual induction as `node_lex`.
-/
import Penman.Proofs.FormatTop

set_option linter.unusedSimpArgs false
namespace Penman.FL
open Penman Penman.Spec Penman.Lex

variable {cfg : LexCfg}

theorem gapStr_nil : GapStr [] := by simp [GapStr]
theorem gapStr_append {a b : Str} (ha : GapStr a) (hb : GapStr b) : GapStr (a ++ b) := by
  intro c hc; simp only [List.mem_append] at hc; exact hc.elim (ha c) (hb c)
theorem gapStr_space : GapStr [' '] := by simp [GapStr]
theorem gapStr_lf : GapStr ['\n'] := by simp [GapStr]
theorem gapStr_sep {s : Str} (h : Sep s) : GapStr s := by
  rcases h with rfl | ⟨k, rfl⟩
  · exact gapStr_space
  · intro c hc
    simp only [List.mem_cons, List.mem_replicate] at hc
    rcases hc with rfl | ⟨-, rfl⟩
    · exact .inr rfl
    · exact .inl rfl

theorem _root_.Penman.Spec.Woven.gap_left {g : Str} (hg : GapStr g) {ts : List Str} {s : Str} (h : Woven ts s) :
    Woven ts (g ++ s) := by
  cases h with
  | nil g' hg' => exact .nil _ (gapStr_append hg hg')
  | cons g' t ts' s' hg' h' =>
    rw [← List.append_assoc]
    exact .cons _ t ts' s' (gapStr_append hg hg') h'

theorem _root_.Penman.Spec.Woven.append {a : List Str} {s : Str} (h1 : Woven a s) :
    ∀ {b : List Str} {s' : Str}, Woven b s' → Woven (a ++ b) (s ++ s') := by
  induction h1 with
  | nil g hg => intro b s' h2; exact h2.gap_left hg
  | cons g t ts s0 hg _ ih =>
    intro b s' h2
    have := Woven.cons g t _ _ hg (ih h2)
    simpa [List.append_assoc] using this

theorem woven_one (t : Str) : Woven [t] t := by
  have := Woven.cons [] t [] [] gapStr_nil (.nil [] gapStr_nil)
  simpa using this

theorem woven_gap {g : Str} (hg : GapStr g) : Woven [] g := .nil g hg

theorem joined_cons_woven {x : Str} {L : List Str} {s : Str} {cx cL : List Str}
    (hj : Joined Sep (x :: L) s) (hx : Woven cx x) (hL : ∀ s', Joined Sep L s' → Woven cL s') :
    Woven (cx ++ cL) s := by
  cases hj with
  | one _ => simpa using hx.append (hL [] .nil)
  | cons _ y r sep s' hsep h2 =>
    rw [List.append_assoc]
    exact hx.append ((hL s' h2).gap_left (gapStr_sep hsep))

theorem ttext_woven (x : TText) : Woven (x.toks.map (·.text)) x.text := by
  obtain ⟨tok, aln⟩ := x
  cases aln with
  | none => exact woven_one _
  | some a => exact (woven_one tok.text).append (woven_one a.text)

theorem text_lparen {t : Tok} (h1 : t.ty = .LPAREN) (h : TokGood cfg t) : t.text = ['('] := by
  have := h.1; rw [h1] at this; exact this
theorem text_rparen {t : Tok} (h1 : t.ty = .RPAREN) (h : TokGood cfg t) : t.text = [')'] := by
  have := h.1; rw [h1] at this; exact this
theorem text_slash {t : Tok} (h1 : t.ty = .SLASH) (h : TokGood cfg t) : t.text = ['/'] := by
  have := h.1; rw [h1] at this; exact this

mutual
theorem node_woven : (k : CNode) → k.wf = true → (∀ t ∈ k.toks, TokGood cfg t) →
    ∀ (indent : Indent) (vars : List Str) (column : Int),
      Woven (k.toks.map (·.text)) (formatNode indent vars k.tree column)
  | .empty lp rp, hwf, hg, indent, vars, column => by
    simp only [CNode.wf, Bool.and_eq_true, decide_eq_true_eq] at hwf
    simp only [CNode.toks, List.mem_cons, List.not_mem_nil, or_false, forall_eq_or_imp, forall_eq] at hg
    simp only [CNode.tree, formatNode_none, CNode.toks, List.map_cons, List.map_nil,
      text_lparen hwf.1 hg.1, text_rparen hwf.2 hg.2]
    exact (woven_one ['(']).append (woven_one [')'])
  | .mk lp var sl es rp, hwf, hg, indent, vars, column => by
    simp only [CNode.wf, Bool.and_eq_true, decide_eq_true_eq] at hwf
    obtain ⟨⟨⟨⟨hlp, hv⟩, hsl⟩, hes⟩, hrp⟩ := hwf
    have glp : TokGood cfg lp := hg lp (by simp [CNode.toks])
    have gvar : TokGood cfg var := hg var (by simp [CNode.toks])
    have grp : TokGood cfg rp := hg rp (by simp [CNode.toks])
    have ges : ∀ t ∈ es.toks, TokGood cfg t := fun t ht => hg t (by simp [CNode.toks, ht])
    have gsl : ∀ t ∈ slashToks sl, TokGood cfg t := fun t ht => hg t (by simp [CNode.toks, ht])
    have hvne : var.text ≠ [] := by have := gvar.1; rw [hv] at this; exact this.1
    have ihE := edges_woven es hes ges indent vars
    simp only [CNode.toks, List.map_cons, List.map_append, List.map_nil, text_lparen hlp glp,
      text_rparen hrp grp]
    have wrap : ∀ (cs : List Str) (j : Str), Woven cs j →
        Woven (['('] :: var.text :: (cs ++ [[')']])) ('(' :: var.text ++ ' ' :: (j ++ [')'])) := by
      intro cs j h
      have := (woven_one ['(']).append ((woven_one var.text).append
        ((h.gap_left gapStr_space).append (woven_one [')'])))
      simpa using this
    match sl, hsl, gsl with
    | none, _, _ =>
      simp only [CNode.tree, slashToks, List.map_nil, List.nil_append]
      by_cases hnil : es = .nil
      · subst hnil
        simp only [CEdges.tree, formatNode_nil indent vars _ column hvne, CEdges.toks, List.map_nil,
          List.nil_append]
        have := (woven_one ['(']).append ((woven_one var.text).append (woven_one [')']))
        simpa using this
      · obtain ⟨col, j, hj, he⟩ := formatNode_some indent vars var.text es.tree column hvne
          (cedges_tree_ne_nil es hnil)
        rw [he]
        exact wrap _ j (ihE col j hj)
    | some (s, none), hsl, gsl =>
      simp only [slashWf, decide_eq_true_eq] at hsl
      have gs : TokGood cfg s := gsl s (by simp [slashToks])
      simp only [CNode.tree, slashToks, List.map_cons, List.map_nil, text_slash hsl gs]
      obtain ⟨col, j, hj, he⟩ := formatNode_some indent vars var.text (.atom ['/'] .none es.tree) column hvne
        (by simp)
      rw [he]
      have hj' : Joined Sep (['/'] :: (formatEdges indent vars es.tree col).map (·.2)) j := by
        simpa [formatEdges, ensureColonRole, Atom.isMissing] using hj
      have := wrap _ j (joined_cons_woven hj' (woven_one ['/']) (fun s' hs' => ihE col s' hs'))
      simpa using this
    | some (s, some c), hsl, gsl =>
      simp only [slashWf, Bool.and_eq_true, decide_eq_true_eq] at hsl
      obtain ⟨⟨hs, hc⟩, hca⟩ := hsl
      have gs : TokGood cfg s := gsl s (by simp [slashToks])
      have gc : ∀ t ∈ c.toks, TokGood cfg t := fun t ht => gsl t (by simp [slashToks, ht])
      have hcne : c.text ≠ [] := ttText_ne_nil c (gc _ (by rw [ttToks_eq c]; simp)) (.inl hc)
      have hcne' : c.text.isEmpty = false := by cases h : c.text <;> simp_all
      simp only [CNode.tree, slashToks, List.map_cons, List.map_nil, text_slash hs gs]
      obtain ⟨col, j, hj, he⟩ := formatNode_some indent vars var.text (.atom ['/'] (.str c.text) es.tree)
        column hvne (by simp)
      rw [he]
      have hj' : Joined Sep (('/' :: ' ' :: c.text) :: (formatEdges indent vars es.tree col).map (·.2)) j := by
        simpa [formatEdges, ensureColonRole, Atom.isMissing, hcne', atomText] using hj
      have hx : Woven (['/'] :: c.toks.map (·.text)) ('/' :: ' ' :: c.text) := by
        have := (woven_one ['/']).append ((ttext_woven c).gap_left gapStr_space)
        simpa using this
      have := wrap _ j (joined_cons_woven hj' hx (fun s' hs' => ihE col s' hs'))
      simpa using this
theorem edges_woven : (es : CEdges) → es.wf = true → (∀ t ∈ es.toks, TokGood cfg t) →
    ∀ (indent : Indent) (vars : List Str) (column : Int) (j : Str),
      Joined Sep ((formatEdges indent vars es.tree column).map (·.2)) j →
      Woven (es.toks.map (·.text)) j
  | .nil, _, _, indent, vars, column, j, hj => by
    simp only [CEdges.tree, formatEdges, List.map_nil] at hj
    cases hj
    exact woven_gap gapStr_nil
  | .atom r none es, hwf, hg, indent, vars, column, j, hj => by
    simp only [CEdges.wf, Bool.and_eq_true, decide_eq_true_eq] at hwf
    obtain ⟨⟨hr, hra⟩, hes⟩ := hwf
    have gr : ∀ t ∈ r.toks, TokGood cfg t := fun t ht => hg t (by simp [CEdges.toks, ht])
    have ges : ∀ t ∈ es.toks, TokGood cfg t := fun t ht => hg t (by simp [CEdges.toks, ht])
    have hcol := role_text_colon r hr (gr _ (by rw [ttToks_eq r]; simp))
    have hj' : Joined Sep (r.text :: (formatEdges indent vars es.tree column).map (·.2)) j := by
      simpa [CEdges.tree, formatEdges, hcol, Atom.isMissing] using hj
    have := joined_cons_woven hj' (ttext_woven r) (fun s' hs' => edges_woven es hes ges indent vars column s' hs')
    simpa [CEdges.toks] using this
  | .atom r (some a) es, hwf, hg, indent, vars, column, j, hj => by
    simp only [CEdges.wf, Bool.and_eq_true, decide_eq_true_eq] at hwf
    obtain ⟨⟨⟨⟨hr, hra⟩, ha⟩, haa⟩, hes⟩ := hwf
    have gr : ∀ t ∈ r.toks, TokGood cfg t := fun t ht => hg t (by simp [CEdges.toks, ht])
    have ga : ∀ t ∈ a.toks, TokGood cfg t := fun t ht => hg t (by simp [CEdges.toks, ht])
    have ges : ∀ t ∈ es.toks, TokGood cfg t := fun t ht => hg t (by simp [CEdges.toks, ht])
    have hcol := role_text_colon r hr (gr _ (by rw [ttToks_eq r]; simp))
    have hane : a.text ≠ [] := ttText_ne_nil a (ga _ (by rw [ttToks_eq a]; simp)) (.inl ha)
    have hane' : a.text.isEmpty = false := by cases h : a.text <;> simp_all
    have hj' : Joined Sep ((r.text ++ ' ' :: a.text) :: (formatEdges indent vars es.tree column).map (·.2)) j := by
      simpa [CEdges.tree, formatEdges, hcol, Atom.isMissing, hane', atomText] using hj
    have hx : Woven (r.toks.map (·.text) ++ a.toks.map (·.text)) (r.text ++ ' ' :: a.text) :=
      (ttext_woven r).append ((ttext_woven a).gap_left gapStr_space)
    have := joined_cons_woven hj' hx (fun s' hs' => edges_woven es hes ges indent vars column s' hs')
    simpa [CEdges.toks] using this
  | .sub r n es, hwf, hg, indent, vars, column, j, hj => by
    simp only [CEdges.wf, Bool.and_eq_true, decide_eq_true_eq] at hwf
    obtain ⟨⟨⟨hr, hra⟩, hn⟩, hes⟩ := hwf
    have gr : ∀ t ∈ r.toks, TokGood cfg t := fun t ht => hg t (by simp [CEdges.toks, ht])
    have gn : ∀ t ∈ n.toks, TokGood cfg t := fun t ht => hg t (by simp [CEdges.toks, ht])
    have ges : ∀ t ∈ es.toks, TokGood cfg t := fun t ht => hg t (by simp [CEdges.toks, ht])
    have hcol := role_text_colon r hr (gr _ (by rw [ttToks_eq r]; simp))
    simp only [CEdges.tree, formatEdges, hcol, List.map_cons] at hj
    have hx : Woven (r.toks.map (·.text) ++ n.toks.map (·.text))
        (r.text ++ [' '] ++ formatNode indent vars n.tree (if indent = some (-1) then column + r.text.length + 1 else column)) := by
      rw [List.append_assoc]
      exact (ttext_woven r).append ((node_woven n hn gn indent vars _).gap_left gapStr_space)
    have := joined_cons_woven hj hx (fun s' hs' => edges_woven es hes ges indent vars column s' hs')
    simpa [CEdges.toks] using this
end

theorem lines_woven (last : Str) {cl : List Str} (hl : Woven cl last) :
    ∀ lines : List Str, Woven (lines ++ cl) (joinStr ['\n'] (lines ++ [last]))
  | [] => by simpa [joinStr] using hl
  | l :: ls => by
    simp only [List.cons_append]
    rw [joinStr_cons_ne _ _ (by simp), List.append_assoc]
    exact (woven_one l).append ((lines_woven last hl ls).gap_left gapStr_lf)

/-- the formatted text is woven from the metadata lines and the token texts of the tree -/
theorem format_woven (k : CNode) (hk : CNode.Good cfg k) (md : AList Str Str) (i : Indent) (c : Bool) :
    Woven (formatMeta md ++ k.toks.map (·.text)) (format ⟨k.tree, md⟩ i c) := by
  simp only [format]
  exact lines_woven _ (node_woven k hk.1 hk.2 i _ 0) _

end Penman.FL

/-
  Penman.Layout — `penman.layout`: `interpret`, `configure`, `reconfigure`,
  `rearrange`, the layout diagnostics; `penman.surface` alignments.

  `configure` mutates partially built nodes through aliases held in
  `nodemap`. The model uses a store of cells keyed by variable
  (`cells : var ↦ edges`) and `nodemap : var ↦ unset | site u | own`,
  the three things a Python `nodemap` entry can be (validated against the
  real function on 320 000 graphs during design, see DESIGN.md §6 C03).
  `data` is kept in *processing order* (head = next datum), i.e. the
  reverse of the Python list.
-/
import Penman.Graph
import Penman.Tree
namespace Penman

/-! ### alignment markers (penman/surface.py) -/

/-- `int(piece)` for one comma-separated piece -/
def parseIndex (piece : Str) : Except PyErr Nat :=
  if piece.isEmpty then .error .surface
  else if piece.all isAsciiDigit then .ok (natOfDigits piece)
  else if piece.all (fun c => c.toNat < 128 && !(c ∈ " \t\n\r\x0b\x0c+-_".toList)) then .error .surface
  else .error (.unmodelled "int() on a non-ASCII-digit alignment index")

/-- `AlignmentMarker.from_string(s)` → `(prefix, indices)` -/
def alnFromString (isAlpha : Char → Bool) (s : Str) : Except PyErr (Option Str × List Nat) := do
  let s1 := lstripChar '~' s
  match s1 with
  | [] => throw .surface
  | c :: rest =>
    let (pre, body) ←
      if isAlpha c then
        match rest with
        | [] => throw .surface            -- `_s[1]` IndexError
        | d :: rest' => if d = '.' then pure (some [c, '.'], rest') else pure (some [c], rest)
      else pure (none, s1)
    let idx ← (splitChar ',' body).mapM parseIndex
    pure (pre, idx)

/-- `str(marker)` -/
def alnToString (pre : Option Str) (idx : List Nat) : Str :=
  '~' :: (pre.getD []) ++ joinStr [','] (idx.map natToStr)

def Epi.toStr : Epi → Str
  | .roleAln p i => alnToString p i
  | .aln p i => alnToString p i
  | .push v => "Push(".toList ++ v ++ [')']
  | .pop => "POP".toList

/-- `_get_alignments(g, type)` : last marker of the type per triple, in epidata order -/
def getAlignments (g : Graph) (role : Bool) : AList Triple Epi :=
  g.epidata.filterMap fun (t, epis) =>
    match (epis.filter fun e => if role then e.mode = 1 else e.mode = 2).getLast? with
    | some e => some (t, e)
    | none => none

/-! ### interpret -/

/-- `_process_role` -/
def processRole (isAlpha : Char → Bool) (role : Str) : Except PyErr (Str × List Epi) :=
  if role = ['/'] then .ok (CONCEPT_ROLE, [])
  else
    let p := partitionStr ['~'] role
    if p.2.1 then do
      let (pre, idx) ← alnFromString isAlpha p.2.2
      pure (p.1, [.roleAln pre idx])
    else .ok (role, [])

/-- index just after the last `"` (`target.rindex('"') + 1`) -/
def afterLastQuote (s : Str) : Nat :=
  match rfindAux ['"'] s 0 none with
  | some i => i + 1
  | none => 0

/-- `_process_atomic` -/
def processAtomic (isAlpha : Char → Bool) (a : Atom) : Except PyErr (Atom × List Epi) :=
  match a with
  | .none => .ok (.none, [])
  | .num _ => .error (.unmodelled "numeric atom in a tree given to interpret")
  | .str s =>
    if s.isEmpty || !(s.contains '~') then .ok (a, [])
    else if startsWith ['"'] s then
      let pivot := afterLastQuote s
      if pivot < s.length then do
        let (pre, idx) ← alnFromString isAlpha (s.drop pivot)
        pure (.str (s.take pivot), [.aln pre idx])
      else .ok (a, [])
    else do
      let p := partitionStr ['~'] s
      let (pre, idx) ← alnFromString isAlpha p.2.2
      pure (.str p.1, [.aln pre idx])

/-- append `POP` to the marker list of the last entry (`_epis[-1][1].append(POP)`) -/
def appendPopLast : List (Triple × List Epi) → List (Triple × List Epi)
  | [] => []
  | [(t, e)] => [(t, e ++ [.pop])]
  | x :: y :: r => x :: appendPopLast (y :: r)

structure InterpOut where
  hasConcept : Bool
  triples : List Triple
  epidata : List (Triple × List Epi)

mutual
/-- `_interpret_node` -/
def interpretNode (isAlpha : Char → Bool) (m : Model) (variables : List Str) : Node → Except PyErr (List Triple × List (Triple × List Epi))
  | .mk v bs =>
    match v with
    | none => .error (.unmodelled "node without a variable")
    | some var => do
      let out ← interpretBranches isAlpha m variables var bs
      if out.hasConcept then pure (out.triples, out.epidata)
      else
        let inst : Triple := ⟨var, CONCEPT_ROLE, .none⟩
        pure (inst :: out.triples, (inst, []) :: out.epidata)
def interpretBranches (isAlpha : Char → Bool) (m : Model) (variables : List Str) (var : Str) :
    Branches → Except PyErr InterpOut
  | .nil => .ok ⟨false, [], []⟩
  | .atom role a rest => do
    let (role, repis) ← processRole isAlpha role
    let (tgt, tepis) ← processAtomic isAlpha a
    let epis := repis ++ tepis
    let triple : Triple := ⟨var, role, tgt⟩
    let triple := if m.isRoleInverted role && atomInVars variables tgt then m.deinvert triple else triple
    let out ← interpretBranches isAlpha m variables var rest
    pure ⟨out.hasConcept || role = CONCEPT_ROLE, triple :: out.triples, (triple, epis) :: out.epidata⟩
  | .sub role n rest => do
    let (role, repis) ← processRole isAlpha role
    match n.var with
    | none => throw (.unmodelled "node without a variable")
    | some nv =>
      let triple := m.deinvert ⟨var, role, .str nv⟩
      let (ntriples, nepis) ← interpretNode isAlpha m variables n
      let out ← interpretBranches isAlpha m variables var rest
      pure ⟨out.hasConcept || role = CONCEPT_ROLE,
            triple :: ntriples ++ out.triples,
            (triple, repis ++ [.push nv]) :: appendPopLast nepis ++ out.epidata⟩
end

/-- first entry wins for duplicate triples (`if triple in epimap: ignore`) -/
def epimapOf : List (Triple × List Epi) → Epidata
  | [] => []
  | (t, e) :: rest => (t, e) :: (epimapOf rest).filter (·.1 ≠ t)

/-- `interpret(t, model)` -/
def interpret (isAlpha : Char → Bool) (m : Model) (t : Tree) : Except PyErr Graph := do
  let (triples, epidata) ← interpretNode isAlpha m t.node.vars t.node
  pure (Graph.mk' triples t.node.var (epimapOf epidata) t.metadata)

/-! ### configure -/

inductive ETgt where
  | atom (a : Atom)
  | node (v : Str)
deriving DecidableEq, Repr

structure Edge where
  role : Str
  tgt : ETgt
  epis : List Epi
deriving DecidableEq, Repr

inductive NM where
  | unset | site (u : Str) | own
deriving DecidableEq, Repr

inductive Datum where
  | t (tr : Triple) (push : Bool) (epis : List Epi)
  | pop
deriving DecidableEq, Repr

structure St where
  cells : AList Str (List Edge)
  nm : AList Str NM
deriving Repr

def St.cell (st : St) (v : Str) : List Edge := (AList.get? st.cells v).getD []
def St.addBack (st : St) (v : Str) (e : Edge) : St := { st with cells := st.cells.set v (st.cell v ++ [e]) }
def St.addFront (st : St) (v : Str) (e : Edge) : St := { st with cells := st.cells.set v (e :: st.cell v) }
def St.newCell (st : St) (v : Str) : St := { cells := st.cells.set v [], nm := st.nm.set v .own }
def St.noteSite (st : St) (var : Str) (target : Atom) : St :=
  match target with
  | .str v => if AList.get? st.nm v = some NM.unset then { st with nm := st.nm.set v (.site var) } else st
  | _ => st
/-- `_is_established` -/
def St.established (st : St) (target : Atom) : Bool :=
  match target with
  | .str v => AList.get? st.nm v = some NM.own
  | _ => false

/-- the marker scan of `_preconfigure` for one triple:
    returns (triple', push, epis, #pops) and the updated `pushed` set -/
def preconfEpis (m : Model) (orig : Triple) : List Epi → Triple → Bool → List Epi → Nat → List Str →
    Except PyErr (Triple × Bool × List Epi × Nat × List Str)
  | [], tr, push, epis, pops, pushed => .ok (tr, push, epis.reverse, pops, pushed)
  | .push pvar :: rest, tr, push, epis, pops, pushed =>
    -- NB: the Python code tests `pvar` against the ORIGINAL (var, target) and role
    if pvar ∈ pushed then preconfEpis m orig rest tr push epis pops pushed
    else if (pvar ≠ orig.src ∧ Atom.str pvar ≠ orig.tgt) ∨ orig.role = CONCEPT_ROLE then
      preconfEpis m orig rest tr push epis pops pushed
    else if pvar = orig.src then
      match tr.tgt with
      | .str _ => preconfEpis m orig rest (m.invert tr) true epis pops (pvar :: pushed)
      | _ => .error (.unmodelled "Push(source) on a triple with a non-string target")
    else preconfEpis m orig rest tr true epis pops (pvar :: pushed)
  | .pop :: rest, tr, push, epis, pops, pushed => preconfEpis m orig rest tr push epis (pops + 1) pushed
  | e :: rest, tr, push, epis, pops, pushed => preconfEpis m orig rest tr push (e :: epis) pops pushed

/-- `_preconfigure`, in processing order -/
def preconfigure (m : Model) (epidata : Epidata) : List Triple → List Str → Except PyErr (List Datum)
  | [], _ => .ok []
  | tr :: rest, pushed => do
    let (tr', push, epis, pops, pushed') ←
      preconfEpis m tr ((AList.get? epidata tr).getD []) tr false [] 0 pushed
    let more ← preconfigure m epidata rest pushed'
    pure (Datum.t tr' push epis :: List.replicate pops Datum.pop ++ more)

/-- orientation step of `_configure_node`: `(role, target, push, surprising)` -/
def orient (m : Model) (var : Str) (tr : Triple) (push s : Bool) : Option (Str × Atom × Bool × Bool) :=
  if tr.src = var then some (tr.role, tr.tgt, push, s)
  else if tr.tgt = .str var ∧ tr.role ≠ CONCEPT_ROLE then
    some ((m.invert tr).role, (m.invert tr).tgt, false, true)
  else none

/-- the variable a `push` opens a node for (fix F15: not if already established) -/
def pushVar (st : St) (push : Bool) (target : Atom) : Option Str :=
  if push && !st.established target then tgtStr? target else none

/-- `_configure_node(var, data, nodemap, model)` → `(data', state', surprising)` -/
def configureNode (m : Model) : Nat → Str → List Datum → St → Bool → List Datum × St × Bool
  | 0, _, data, st, s => (data, st, s)
  | _+1, _, [], st, s => ([], st, s)
  | _+1, _, .pop :: data, st, s => (data, st, s)
  | fuel+1, var, .t tr push epis :: data, st, s =>
    match orient m var tr push s with
    | none => (.t tr push epis :: data, st, true)
    | some (role, target, push, s) =>
      if role = CONCEPT_ROLE then
        if target.isMissing then configureNode m fuel var data st s
        else configureNode m fuel var data (st.addFront var ⟨['/'], .atom target, epis⟩) s
      else
        match pushVar st push target with
        | some v =>
          let r := configureNode m fuel v data (st.newCell v) false
          configureNode m fuel var r.1 (r.2.1.addBack var ⟨role, .node v, epis⟩) (s && r.2.2)
        | none =>
          configureNode m fuel var data ((st.noteSite var target).addBack var ⟨role, .atom target, epis⟩) s

/-- replace the first non-concept edge whose atomic target is `v` by a node edge -/
def establishIn (v : Str) : List Edge → List Edge
  | [] => []
  | e :: es =>
    if e.tgt = .atom (.str v) ∧ e.role ≠ ['/'] then { e with tgt := .node v } :: es
    else e :: establishIn v es

/-- `_get_or_establish_site(var, nodemap)` for a key present in `nodemap` -/
def getOrEstablish (st : St) (v : Str) : Bool × St :=
  match AList.get? st.nm v with
  | some .own => (true, st)
  | some (.site u) =>
    (true, { cells := (st.cells.set u (establishIn v (st.cell u))).set v [], nm := st.nm.set v .own })
  | _ => (false, st)

/-- `_find_next(data, nodemap)` in processing order:
    `(skipped, var, remaining, state')`; requires `data ≠ []` -/
def findNext : List Datum → List Datum → St → List Datum × Option Str × List Datum × St
  | [], skippedRev, st =>
    -- loop ended without `break`: Python's `i` is 0, i.e. the LAST datum in processing order
    match skippedRev with
    | [] => ([], none, [], st)      -- unreachable: configure only calls with data ≠ []
    | last :: before => (before.reverse, none, [last], st)
  | .pop :: rest, skippedRev, st => findNext rest (.pop :: skippedRev) st
  | .t tr push epis :: rest, skippedRev, st =>
    let d := Datum.t tr push epis
    let trySrc := if AList.contains st.nm tr.src then getOrEstablish st tr.src else (false, st)
    if trySrc.1 then (skippedRev.reverse, some tr.src, d :: rest, trySrc.2)
    else
      match tr.tgt with
      | .str tv =>
        let tryTgt := if AList.contains trySrc.2.nm tv then getOrEstablish trySrc.2 tv else (false, trySrc.2)
        if tryTgt.1 then (skippedRev.reverse, some tv, d :: rest, tryTgt.2)
        else findNext rest (d :: skippedRev) tryTgt.2
      | _ => findNext rest (d :: skippedRev) trySrc.2

def stripPops : List Datum → List Datum
  | .pop :: rest => stripPops rest
  | d => d

/-- the `while data:` loop of `configure` -/
def configureLoop (m : Model) : Nat → List Datum → List Datum → St → Except PyErr St
  | 0, _, _, _ => .error (.other "configure: fuel")
  | _+1, [], skipped, st => if skipped.isEmpty then .ok st else .error (.layout 3)
  | fuel+1, data, skipped, st =>
    let (sk, var, data1, st1) := findNext data [] st
    let skipped := sk ++ skipped
    let n := data1.length
    match var with
    | none => .error (.layout 1)
    | some v =>
      if n = 0 then .error (.layout 1)
      else
        let (data2, st2, surprising) := configureNode m (data1.length + 1) v data1 st1 false
        if data2.length = n ∧ surprising then
          match data2 with
          | d :: rest => configureLoop m fuel (stripPops rest) (skipped ++ [d]) st2
          | [] => .error (.other "IndexError")
        else if data2.length ≥ n then .error (.layout 2)
        else configureLoop m fuel (stripPops (data2 ++ skipped)) [] st2

/-- `_process_epigraph` on one edge's role and (atomic) target text -/
def applyEpis (role : Str) (target : Option Str) : List Epi → Str × Option Str
  | [] => (role, target)
  | e :: es =>
    if e.mode = 1 then applyEpis (role ++ e.toStr) target es
    else if e.mode = 2 then
      match target with
      | some t => applyEpis role (some (t ++ e.toStr)) es
      | none => applyEpis role target es
    else applyEpis role target es

/-- `f'{target!s}'` of an atom that gets an alignment appended -/
def atomStr : Atom → Str
  | .none => "None".toList
  | .str s => s
  | .num t => t

mutual
/-- build the tree of variable `v` from the cell store -/
def buildNode (cells : AList Str (List Edge)) : Nat → Str → Except PyErr Node
  | 0, _ => .error (.other "configure: cyclic store")
  | f+1, v => do
    let bs ← buildBranches cells f ((AList.get? cells v).getD [])
    pure (.mk (some v) bs)
def buildBranches (cells : AList Str (List Edge)) : Nat → List Edge → Except PyErr Branches
  | _, [] => .ok .nil
  | f, e :: es => do
    let rest ← buildBranches cells f es
    match e.tgt with
    | .atom a =>
      let hasTgtEpi := e.epis.any (·.mode = 2)
      let (r, t) := applyEpis e.role (some (atomStr a)) e.epis
      pure (.atom r (if hasTgtEpi then .str (t.getD []) else a) rest)
    | .node w =>
      match f with
      | 0 => throw (.other "configure: cyclic store")
      | f'+1 => do
        let n ← buildNode cells f' w
        let (r, _) := applyEpis e.role none e.epis
        pure (.sub r n rest)
end

/-- `configure(g, top, model)` -/
def configure (m : Model) (g : Graph) (top : Option Str) : Except PyErr Tree :=
  if g.triples.isEmpty then .ok { node := .mk g.getTop .nil, metadata := g.metadata }
  else
    let vars := g.variables
    let top := match top with | some t => some t | none => g.getTop
    match top with
    | none => .error (.layout 0)
    | some top =>
      if top ∉ vars then .error (.layout 0)
      else do
        let st0 : St := { cells := [(top, [])], nm := AList.set (vars.map (·, NM.unset)) top NM.own }
        let data ← preconfigure m g.epidata g.triples []
        let (data1, st1, _) := configureNode m (data.length + 1) top data st0 false
        let st2 ← configureLoop m ((data.length + 1) * (data.length + 1) + 1) (stripPops data1) [] st1
        let node ← buildNode st2.cells (2 * st2.cells.length + 2) top
        pure { node := node, metadata := g.metadata }

/-! ### reconfigure, rearrange -/

/-- a sortable key component -/
inductive KV where
  | b (x : Bool) | s (x : Str) | n (x : Nat)
deriving DecidableEq, Repr

def strLt : Str → Str → Bool
  | [], [] => false
  | [], _ :: _ => true
  | _ :: _, [] => false
  | a :: as, b :: bs => if a < b then true else if b < a then false else strLt as bs

def KV.lt : KV → KV → Bool
  | .b x, .b y => !x && y
  | .s x, .s y => strLt x y
  | .n x, .n y => x < y
  | _, _ => false

/-- Python's lexicographic `<=` on equally shaped key tuples/lists -/
def kvLe : List KV → List KV → Bool
  | [], _ => true
  | _ :: _, [] => false
  | a :: as, b :: bs => if KV.lt a b then true else if KV.lt b a then false else kvLe as bs

/-- the ordering functions selectable on the command line -/
inductive KeyFn where
  | original | alphanumeric | canonical | invertedLast
deriving DecidableEq, Repr

def KeyFn.eval (m : Model) : KeyFn → Str → List KV
  | .original, _ => [.b true]
  | .alphanumeric, r => let p := alphanumericOrder r; [.s p.1, .n p.2]
  | .canonical, r => let p := alphanumericOrder r; [.b (m.isRoleInverted r), .s p.1, .n p.2]
  | .invertedLast, r => [.b (m.isRoleInverted r)]

/-- `[func(role) for func in funcs]` -/
def evalKeys (m : Model) (ks : List KeyFn) (r : Str) : List KV := ks.flatMap (·.eval m r)

/-- `reconfigure(g, top, model, key)`; `key = none` keeps the order -/
def reconfigure (m : Model) (g : Graph) (top : Option Str) (key : Option (List KeyFn)) : Except PyErr Tree :=
  let epidata := g.epidata.map fun (t, es) => (t, es.filter (!·.isLayout))
  let triples := match key with
    | none => g.triples
    | some ks => g.triples.mergeSort fun a b => kvLe (evalKeys m ks a.role) (evalKeys m ks b.role)
  -- fix F21: `if top is None: top = g.top` (the implicit top is taken BEFORE sorting)
  configure m { g with epidata := epidata, triples := triples } (match top with | some t => some t | none => g.getTop)

def branchTargetInVars (vars : List Str) : Tgt → Bool
  | .atom (.str s) => s ∈ vars
  | .atom _ => false
  | .node n => match n.var with | some v => v ∈ vars | none => false

/-- `sort_key(branch)` of `rearrange` -/
def branchKey (m : Model) (vars : List Str) (key : Option (List KeyFn)) (b : Branch) : List KV :=
  .b (branchTargetInVars vars b.2) :: (match key with | none => [.b true] | some ks => evalKeys m ks b.1)

def sortBranches (m : Model) (vars : List Str) (key : Option (List KeyFn)) (bs : List Branch) : List Branch :=
  bs.mergeSort fun a b => kvLe (branchKey m vars key a) (branchKey m vars key b)

mutual
/-- `_rearrange(node, key)` -/
def rearrangeNode (m : Model) (vars : List Str) (key : Option (List KeyFn)) : Node → Node
  | .mk v bs =>
    match bs with
    | .nil => .mk v .nil
    | .atom r a rest =>
      if r = ['/'] then .mk v (.atom r a (Branches.ofList (sortBranches m vars key (rearrangeKids m vars key rest))))
      else .mk v (Branches.ofList (sortBranches m vars key ((r, .atom a) :: rearrangeKids m vars key rest)))
    | .sub r n rest =>
      if r = ['/'] then .mk v (.sub r n (Branches.ofList (sortBranches m vars key (rearrangeKids m vars key rest))))
      else .mk v (Branches.ofList (sortBranches m vars key ((r, .node (rearrangeNode m vars key n)) :: rearrangeKids m vars key rest)))
def rearrangeKids (m : Model) (vars : List Str) (key : Option (List KeyFn)) : Branches → List Branch
  | .nil => []
  | .atom r a rest => (r, .atom a) :: rearrangeKids m vars key rest
  | .sub r n rest => (r, .node (rearrangeNode m vars key n)) :: rearrangeKids m vars key rest
end

/-- `rearrange(t, key, attributes_first)` -/
def rearrange (m : Model) (key : Option (List KeyFn)) (attributesFirst : Bool) (t : Tree) : Tree :=
  let vars := if attributesFirst then t.node.vars else []
  { t with node := rearrangeNode m vars key t.node }

/-! ### diagnostics -/

/-- `get_pushed_variable(g, triple)` -/
def getPushedVariable (g : Graph) (t : Triple) : Option Str :=
  ((AList.get? g.epidata t).getD []).findSome? fun | .push v => some v | _ => none

/-- pop the stack once per POP marker; `none` = IndexError (caught: stop) -/
def popN : Nat → List Str → Option (List Str)
  | 0, st => some st
  | _+1, [] => none
  | n+1, _ :: st => popN n st

/-- `node_contexts(g)`; the stack holds `Option Str` because `g.top` may be `None` -/
def nodeContextsLoop (g : Graph) (vars : List Str) : List Triple → List (Option Str) → Except PyErr (List (Option Str))
  | [], _ => .ok []
  | _ :: rest, [] => .ok (List.replicate (rest.length + 1) none)   -- fix F19: `if not stack` → unknown from here on
  | t :: rest, top :: stack =>
    let eligible : List Str := t.src :: (if t.role ≠ CONCEPT_ROLE then (match t.tgt with | .str s => if s ∈ vars then [s] else [] | _ => []) else [])
    match top with
    | none => .ok (List.replicate (rest.length + 1) none)
    | some cur =>
      if cur ∉ eligible then .ok (List.replicate (rest.length + 1) none)
      else
        let stack1 := match getPushedVariable g t with
          | some p => if p.isEmpty then top :: stack else some p :: top :: stack
          | none => top :: stack
        let pops := (((AList.get? g.epidata t).getD []).filter (·.isPop)).length
        -- more POPs than contexts: IndexError is caught, the loop stops
        if pops > stack1.length then .ok (some cur :: List.replicate rest.length none)
        else do
          let more ← nodeContextsLoop g vars rest (stack1.drop pops)
          pure (some cur :: more)

def nodeContexts (g : Graph) : Except PyErr (List (Option Str)) :=
  nodeContextsLoop g g.variables g.triples [g.getTop]

/-- the `zip(node_contexts(g), g.triples)` scan of `appears_inverted` -/
def invertedScan (t : Triple) : List (Option Str) → List Triple → Bool
  | some v :: cs, t' :: ts => if t' = t then t.tgt = .str v else invertedScan t cs ts
  | _, _ => false

/-- `appears_inverted(g, triple)` -/
def appearsInverted (g : Graph) (t : Triple) : Except PyErr Bool :=
  if t.role = CONCEPT_ROLE || !g.isVar t.tgt then .ok false
  else match getPushedVariable g t with
    | some v => .ok (v = t.src)
    | none => do
      let ctx ← nodeContexts g
      pure (invertedScan t ctx g.triples)

end Penman

/-
  Penman.Proofs.Transform.Attr — `reifyAttributes`.
-/
import Penman.Proofs.Transform.Basic
namespace Penman

abbrev AttrAcc := List Str × Nat × Epidata × List Triple

/-- the variable choice of `reify_attributes` -/
def attrVar (vars : List Str) (i : Nat) : Str × Nat :=
  if ['_'] ∈ vars then attrVarLoop vars (vars.length + 1) i else (['_'], i)

/-- the body of the loop of `reify_attributes` (verbatim) -/
def attrStep (acc : AttrAcc) (t : Triple) : AttrAcc :=
    let (vars, i, ep, ts) := acc
    if t.role ≠ CONCEPT_ROLE ∧ !atomInVars vars t.tgt then
      let (var, i') := if ['_'] ∈ vars then attrVarLoop vars (vars.length + 1) i else (['_'], i)
      let roleT : Triple := ⟨t.src, t.role, .str var⟩
      let nodeT : Triple := ⟨var, CONCEPT_ROLE, t.tgt⟩
      let old := (AList.get? ep t).getD []
      let ep := ep.erase t
      let (roleEpis, nodeEpis) := attrMarkers old
      let ep := (ep.set roleT (roleEpis ++ [.push var])).set nodeT (nodeEpis ++ [.pop])
      (var :: vars, i', ep, nodeT :: roleT :: ts)
    else (vars, i, ep, t :: ts)

theorem reifyAttributes_eq (g : Graph) :
    reifyAttributes g =
      Graph.mk' (g.triples.foldl attrStep (g.variables, 2, g.epidata, [])).2.2.2.reverse g.getTop
        (g.triples.foldl attrStep (g.variables, 2, g.epidata, [])).2.2.1 g.metadata := rfl

theorem attrVar_fresh (vars : List Str) (i : Nat) : (attrVar vars i).1 ∉ vars := by
  unfold attrVar
  split
  · exact attrVarLoop_fresh vars i
  · assumption

/-- events of `reify_attributes` -/
inductive AEv where
  | keep (t : Triple)
  | attr (t : Triple) (v : Str)

def AEv.orig : AEv → Triple
  | .keep t => t
  | .attr t _ => t

def attrRoleT (t : Triple) (v : Str) : Triple := ⟨t.src, t.role, .str v⟩
def attrNodeT (t : Triple) (v : Str) : Triple := ⟨v, CONCEPT_ROLE, t.tgt⟩

def AEv.out : AEv → List Triple
  | .keep t => [t]
  | .attr t v => [attrRoleT t v, attrNodeT t v]

def AEv.newVar : AEv → List Str
  | .keep _ => []
  | .attr _ v => [v]

def attrSt (acc : AttrAcc) (t : Triple) : AttrAcc :=
  let v := (attrVar acc.1 acc.2.1).1
  let old := (AList.get? acc.2.2.1 t).getD []
  (v :: acc.1, (attrVar acc.1 acc.2.1).2,
    ((acc.2.2.1.erase t).set (attrRoleT t v) ((attrMarkers old).1 ++ [.push v])).set
      (attrNodeT t v) ((attrMarkers old).2 ++ [.pop]),
    attrNodeT t v :: attrRoleT t v :: acc.2.2.2)

theorem attrStep_attr {acc : AttrAcc} {t : Triple}
    (h : t.role ≠ CONCEPT_ROLE ∧ atomInVars acc.1 t.tgt = false) : attrStep acc t = attrSt acc t := by
  obtain ⟨vars, i, ep, ts⟩ := acc
  simp only at h
  simp only [attrStep, h.1, h.2, ne_eq, not_false_eq_true, Bool.not_false, and_self, if_true]
  rfl

theorem attrStep_keep {acc : AttrAcc} {t : Triple}
    (h : ¬ (t.role ≠ CONCEPT_ROLE ∧ atomInVars acc.1 t.tgt = false)) :
    attrStep acc t = (acc.1, acc.2.1, acc.2.2.1, t :: acc.2.2.2) := by
  obtain ⟨vars, i, ep, ts⟩ := acc
  simp only at h
  have : ¬ (t.role ≠ CONCEPT_ROLE ∧ (!atomInVars vars t.tgt) = true) := by
    simpa using h
  simp only [attrStep, this, if_false]

/-- the loop as a relation (latest event first) -/
inductive ARun (g : Graph) : List AEv → AttrAcc → Prop
  | nil : ARun g [] (g.variables, 2, g.epidata, [])
  | keep {rev acc} (t : Triple) : ARun g rev acc → t ∈ g.triples →
      (t.role = CONCEPT_ROLE ∨ atomInVars acc.1 t.tgt = true) →
      ARun g (.keep t :: rev) (acc.1, acc.2.1, acc.2.2.1, t :: acc.2.2.2)
  | attr {rev acc} (t : Triple) : ARun g rev acc → t ∈ g.triples →
      t.role ≠ CONCEPT_ROLE → atomInVars acc.1 t.tgt = false →
      ARun g (.attr t (attrVar acc.1 acc.2.1).1 :: rev) (attrSt acc t)

theorem arun_fold (g : Graph) : ∀ (l : List Triple) (rev : List AEv) (acc : AttrAcc),
    (∀ t ∈ l, t ∈ g.triples) → ARun g rev acc →
    ∃ rev', ARun g rev' (l.foldl attrStep acc) ∧
      rev'.reverse.map AEv.orig = rev.reverse.map AEv.orig ++ l
  | [], rev, acc, _, hr => ⟨rev, hr, by simp⟩
  | t :: l, rev, acc, hl, hr => by
    by_cases h : t.role ≠ CONCEPT_ROLE ∧ atomInVars acc.1 t.tgt = false
    · obtain ⟨rev', h1, h2⟩ := arun_fold g l _ _ (fun x hx => hl x (by simp [hx]))
        (ARun.attr t hr (hl t (by simp)) h.1 h.2)
      refine ⟨rev', ?_, ?_⟩
      · rw [List.foldl_cons, attrStep_attr h]; exact h1
      · rw [h2]; simp [AEv.orig]
    · have h' : t.role = CONCEPT_ROLE ∨ atomInVars acc.1 t.tgt = true := by
        by_cases hc : t.role = CONCEPT_ROLE
        · left; exact hc
        · right
          cases hv : atomInVars acc.1 t.tgt with
          | true => rfl
          | false => exact absurd ⟨hc, hv⟩ h
      obtain ⟨rev', h1, h2⟩ := arun_fold g l _ _ (fun x hx => hl x (by simp [hx]))
        (ARun.keep t hr (hl t (by simp)) h')
      refine ⟨rev', ?_, ?_⟩
      · rw [List.foldl_cons, attrStep_keep h]; exact h1
      · rw [h2]; simp [AEv.orig]

theorem reifyAttributes_run (g : Graph) :
    ∃ rev acc, ARun g rev acc ∧ rev.reverse.map AEv.orig = g.triples ∧
      reifyAttributes g = Graph.mk' acc.2.2.2.reverse g.getTop acc.2.2.1 g.metadata := by
  obtain ⟨rev, h1, h2⟩ := arun_fold g g.triples [] _ (fun _ h => h) ARun.nil
  exact ⟨rev, _, h1, by simpa using h2, reifyAttributes_eq g⟩

theorem arun_triples {g rev acc} (h : ARun g rev acc) :
    acc.2.2.2.reverse = rev.reverse.flatMap AEv.out := by
  induction h with
  | nil => rfl
  | keep t _ _ _ ih => simp [ih, AEv.out]
  | attr t _ _ _ _ ih => simp [attrSt, ih, AEv.out]

theorem arun_vars {g rev acc} (h : ARun g rev acc) :
    acc.1 = rev.flatMap AEv.newVar ++ g.variables := by
  induction h with
  | nil => rfl
  | keep t _ _ _ ih => simp [ih, AEv.newVar]
  | attr t _ _ _ _ ih => simp [attrSt, ih, AEv.newVar]

theorem arun_vars_nodup {g rev acc} (h : ARun g rev acc) : acc.1.Nodup := by
  induction h with
  | nil => exact nodup_variables g
  | keep t _ _ _ ih => exact ih
  | attr t _ _ _ _ ih =>
    simp only [attrSt, List.nodup_cons]
    exact ⟨attrVar_fresh _ _, ih⟩

/-- local facts of the events of a run -/
def AEvOk (g : Graph) (vars : List Str) : AEv → Prop
  | .keep t => t ∈ g.triples ∧ (t.role = CONCEPT_ROLE ∨ atomInVars vars t.tgt = true)
  | .attr t _ => t ∈ g.triples ∧ t.role ≠ CONCEPT_ROLE ∧ atomInVars g.variables t.tgt = false

theorem atomInVars_mono {a b : List Str} (h : ∀ x ∈ a, x ∈ b) {t : Atom}
    (ht : atomInVars a t = true) : atomInVars b t = true := by
  cases t with
  | str s => simp only [atomInVars, decide_eq_true_eq] at ht ⊢; exact h s ht
  | none => simp [atomInVars] at ht
  | num _ => simp [atomInVars] at ht

theorem arun_evOk {g rev acc} (h : ARun g rev acc) : ∀ e ∈ rev, AEvOk g acc.1 e := by
  induction h with
  | nil => simp
  | keep t _ ht hc ih =>
    intro e he
    rcases List.mem_cons.mp he with rfl | he
    · exact ⟨ht, hc⟩
    · exact ih e he
  | @attr rev0 acc0 t hrun' ht hr hv ih =>
    intro e he
    rcases List.mem_cons.mp he with rfl | he
    · refine ⟨ht, hr, ?_⟩
      cases hv' : atomInVars g.variables t.tgt with
      | false => rfl
      | true =>
        have := atomInVars_mono (a := g.variables) (b := acc0.1) (fun x hx => by
          rw [arun_vars hrun']; exact List.mem_append_right _ hx) hv'
        rw [hv] at this; simp at this
    · have := ih e he
      cases e with
      | keep t' =>
        refine ⟨this.1, this.2.imp id (fun h' => ?_)⟩
        exact atomInVars_mono (fun x hx => by simp [attrSt, hx]) h'
      | attr t' v' => exact this

/-! ### results -/

theorem reifyAttributes_getTop (g : Graph) : (reifyAttributes g).getTop = g.getTop := by
  obtain ⟨rev, acc, hrun, ho, he⟩ := reifyAttributes_run g
  rw [he]
  apply mk'_getTop
  intro hnil
  rw [hnil] at ho
  have : rev = [] := by simpa using ho
  subst this
  rw [arun_triples hrun]; rfl

theorem reifyAttributes_top (g : Graph) : (reifyAttributes g).top = g.getTop := by
  obtain ⟨rev, acc, hrun, ho, he⟩ := reifyAttributes_run g
  rw [he]; rfl

/-- the triples of the result: every attribute `(s, r, c)` replaced in place by
    `(s, r, v), (v, :instance, c)` with `v` fresh and pairwise distinct -/
theorem reifyAttributes_triples (g : Graph) :
    ∃ evs : List AEv, evs.map AEv.orig = g.triples ∧
      (reifyAttributes g).triples =
        (evs.flatMap AEv.out).map (fun t => { t with role := ensureColon t.role }) ∧
      (evs.flatMap AEv.newVar).Nodup ∧ (∀ v ∈ evs.flatMap AEv.newVar, v ∉ g.variables) ∧
      (∀ e ∈ evs, AEvOk g (evs.flatMap AEv.newVar ++ g.variables) e) := by
  obtain ⟨rev, acc, hrun, ho, he⟩ := reifyAttributes_run g
  have hn := arun_vars_nodup hrun
  rw [arun_vars hrun, List.nodup_append] at hn
  have hperm : ∀ v, v ∈ rev.reverse.flatMap AEv.newVar ↔ v ∈ rev.flatMap AEv.newVar := by
    intro v; simp [List.mem_flatMap]
  refine ⟨rev.reverse, ho, ?_, ?_, ?_, ?_⟩
  · rw [he]; simp only [Graph.mk']; rw [arun_triples hrun]
  · have : rev.reverse.flatMap AEv.newVar = (rev.flatMap AEv.newVar).reverse := by
      clear hn ho he hrun hperm
      induction rev with
      | nil => rfl
      | cons e r ih =>
        simp only [List.reverse_cons, List.flatMap_append, List.flatMap_cons, List.flatMap_nil,
          List.append_nil, List.reverse_append, ih]
        cases e <;> simp [AEv.newVar]
    rw [this]; exact List.pairwise_reverse.mpr (hn.1.imp Ne.symm)
  · intro v hv hv'
    exact hn.2.2 v ((hperm v).mp hv) v hv' rfl
  · intro e he'
    have := arun_evOk hrun e (by simpa using he')
    cases e with
    | keep t =>
      refine ⟨this.1, this.2.imp id (fun h' => atomInVars_mono ?_ h')⟩
      intro x hx
      rw [arun_vars hrun] at hx
      simp only [List.mem_append] at hx ⊢
      exact hx.imp (hperm x).mpr id
    | attr t v => exact this

/-- variables of `g` stay variables -/
theorem reifyAttributes_vars_mono (g : Graph) {x : Str} (hx : x ∈ g.variables) :
    x ∈ (reifyAttributes g).variables := by
  obtain ⟨evs, ho, ht, _, _, _⟩ := reifyAttributes_triples g
  rw [mem_variables] at hx ⊢
  rcases hx with ⟨t, htg, hsrc⟩ | htop
  · left
    rw [← ho, List.mem_map] at htg
    obtain ⟨e, he, heo⟩ := htg
    rw [ht]
    cases e with
    | keep t' =>
      simp only [AEv.orig] at heo; subst heo
      exact ⟨_, List.mem_map.mpr ⟨t', List.mem_flatMap.mpr ⟨_, he, by simp [AEv.out]⟩, rfl⟩, hsrc⟩
    | attr t' v =>
      simp only [AEv.orig] at heo; subst heo
      exact ⟨_, List.mem_map.mpr ⟨attrRoleT t' v,
        List.mem_flatMap.mpr ⟨_, he, by simp [AEv.out]⟩, rfl⟩, hsrc⟩
  · right
    rw [reifyAttributes_top]
    simp [Graph.getTop, htop]

/-- **No attribute is left.** -/
theorem reifyAttributes_no_attributes (g : Graph) : (reifyAttributes g).attributes = [] := by
  obtain ⟨evs, ho, ht, _, _, hok⟩ := reifyAttributes_triples g
  unfold Graph.attributes Graph.filterTriples
  rw [List.filter_eq_nil_iff]
  intro t1 h1
  have h1 := (List.mem_filter.mp h1).1
  rw [ht, List.mem_map] at h1
  obtain ⟨t0, h0, rfl⟩ := h1
  rw [List.mem_flatMap] at h0
  obtain ⟨e, he, h0⟩ := h0
  have hnewvar : ∀ v ∈ evs.flatMap AEv.newVar, v ∈ (reifyAttributes g).variables := by
    intro v hv
    rw [List.mem_flatMap] at hv
    obtain ⟨e', he', hv⟩ := hv
    cases e' with
    | keep t => simp [AEv.newVar] at hv
    | attr t v' =>
      simp only [AEv.newVar, List.mem_singleton] at hv
      subst hv
      rw [mem_variables]; left
      rw [ht]
      exact ⟨_, List.mem_map.mpr ⟨attrNodeT t v,
        List.mem_flatMap.mpr ⟨_, he', by simp [AEv.out]⟩, rfl⟩, rfl⟩
  cases e with
  | keep t =>
    simp only [AEv.out, List.mem_singleton] at h0
    subst h0
    rcases (hok _ he).2 with hc | hv
    · simp [hc, ensureColon_concept]
    · have : (reifyAttributes g).isVar t0.tgt = true := by
        cases htg : t0.tgt with
        | str s =>
          rw [htg] at hv
          simp only [atomInVars, List.mem_append, decide_eq_true_eq] at hv
          simp only [Graph.isVar, decide_eq_true_eq]
          rcases hv with hv | hv
          · exact hnewvar s hv
          · exact reifyAttributes_vars_mono g hv
        | none => rw [htg] at hv; simp [atomInVars] at hv
        | num _ => rw [htg] at hv; simp [atomInVars] at hv
      simp [this]
  | attr t v =>
    simp only [AEv.out, List.mem_cons, List.not_mem_nil, or_false] at h0
    rcases h0 with rfl | rfl
    · have : (reifyAttributes g).isVar (Atom.str v) = true := by
        simp only [Graph.isVar, decide_eq_true_eq]
        exact hnewvar v (List.mem_flatMap.mpr ⟨_, he, by simp [AEv.newVar]⟩)
      simp [attrRoleT, this]
    · simp [attrNodeT, ensureColon_concept]

/-! ### contraction -/

/-- contract every pair `(s, r, v), (v, :instance, c)` with `v` new to `(s, r, c)` -/
def contractAttrs (isNew : Str → Bool) : List Triple → List Triple
  | t1 :: t2 :: rest =>
    if t2.role = CONCEPT_ROLE ∧ isNew t2.src = true ∧ t1.tgt = .str t2.src then
      ⟨t1.src, t1.role, t2.tgt⟩ :: contractAttrs isNew rest
    else t1 :: contractAttrs isNew (t2 :: rest)
  | l => l

theorem contract_flatMap (g : Graph) (isNew : Str → Bool) (hnew : ∀ x ∈ g.variables, isNew x = false)
    (vars : List Str) : ∀ (evs : List AEv), (∀ e ∈ evs, AEvOk g vars e) →
    (∀ v ∈ evs.flatMap AEv.newVar, isNew v = true) →
    contractAttrs isNew (evs.flatMap AEv.out) = evs.map AEv.orig
  | [], _, _ => rfl
  | e :: r, hok, hv => by
    have ih := contract_flatMap g isNew hnew vars r (fun e he => hok e (by simp [he]))
      (fun v hv' => hv v (by simp [hv']))
    cases e with
    | attr t v =>
      have : isNew v = true := hv v (by simp [AEv.newVar])
      simp only [List.flatMap_cons, AEv.out, List.cons_append, List.nil_append, contractAttrs,
        attrNodeT, attrRoleT, this, and_self, if_true, List.map_cons, AEv.orig, ih]
    | keep t =>
      simp only [List.flatMap_cons, AEv.out, List.cons_append, List.nil_append, List.map_cons,
        AEv.orig]
      cases hr : r.flatMap AEv.out with
      | nil =>
        rw [hr] at ih
        rw [← ih]; rfl
      | cons t2 rest =>
        have hsrc : t2.src ∈ g.variables := by
          cases r with
          | nil => simp at hr
          | cons e2 r2 =>
            have hok2 := hok e2 (by simp)
            cases e2 with
            | keep t' =>
              simp only [List.flatMap_cons, AEv.out, List.cons_append, List.nil_append,
                List.cons.injEq] at hr
              rw [← hr.1]; exact src_mem_variables hok2.1
            | attr t' v' =>
              simp only [List.flatMap_cons, AEv.out, List.cons_append, List.nil_append,
                List.cons.injEq] at hr
              rw [← hr.1]; exact src_mem_variables (t := t') hok2.1
        have : ¬ (t2.role = CONCEPT_ROLE ∧ isNew t2.src = true ∧ t.tgt = .str t2.src) := by
          intro h; rw [hnew _ hsrc] at h; simp at h
        rw [contractAttrs]
        simp only [this, if_false]
        rw [← hr, ih]

/-- **Contracting the new nodes gives back the original triples.** -/
theorem reifyAttributes_contract (g : Graph) (hg : RolesColon g) :
    contractAttrs (fun v => decide (v ∉ g.variables)) (reifyAttributes g).triples = g.triples := by
  obtain ⟨evs, ho, ht, _, hfresh, hok⟩ := reifyAttributes_triples g
  have hid : (evs.flatMap AEv.out).map (fun t => { t with role := ensureColon t.role })
      = evs.flatMap AEv.out := by
    conv => rhs; rw [← List.map_id (evs.flatMap AEv.out)]
    apply List.map_congr_left
    intro t1 h1
    rw [List.mem_flatMap] at h1
    obtain ⟨e, he, h1⟩ := h1
    have hcol : startsWith [':'] t1.role = true := by
      cases e with
      | keep t =>
        simp only [AEv.out, List.mem_singleton] at h1
        subst h1; exact hg _ (hok _ he).1
      | attr t v =>
        simp only [AEv.out, List.mem_cons, List.not_mem_nil, or_false] at h1
        rcases h1 with rfl | rfl
        · exact hg t (hok _ he).1
        · exact (by decide : startsWith [':'] CONCEPT_ROLE = true)
    rw [ensureColon_of_colon hcol]; rfl
  rw [ht, hid, ← ho]
  exact contract_flatMap g _ (fun x hx => by simp [hx]) _ evs hok
    (fun v hv => by simpa using hfresh v hv)

/-- **Every source still has a node.** -/
theorem reifyAttributes_hasInst (g : Graph) (h : HasInst g) : HasInst (reifyAttributes g) := by
  obtain ⟨evs, ho, ht, _, _, hok⟩ := reifyAttributes_triples g
  -- instance triples of `g` are kept
  have hkeep : ∀ t ∈ g.triples, t.role = CONCEPT_ROLE → t ∈ (reifyAttributes g).triples := by
    intro t htg hc
    rw [← ho, List.mem_map] at htg
    obtain ⟨e, he, heo⟩ := htg
    cases e with
    | keep t' =>
      simp only [AEv.orig] at heo; subst heo
      rw [ht, List.mem_map]
      refine ⟨t', List.mem_flatMap.mpr ⟨_, he, by simp [AEv.out]⟩, ?_⟩
      simp only [hc, ensureColon_concept]; rw [← hc]
    | attr t' v =>
      simp only [AEv.orig] at heo; subst heo
      exact absurd hc (hok _ he).2.1
  intro t1 h1
  rw [ht, List.mem_map] at h1
  obtain ⟨t0, h0, rfl⟩ := h1
  rw [List.mem_flatMap] at h0
  obtain ⟨e, he, h0⟩ := h0
  have old : ∀ t ∈ g.triples, ∃ t' ∈ (reifyAttributes g).triples, t'.src = t.src ∧
      t'.role = CONCEPT_ROLE := by
    intro t htg
    obtain ⟨t', ht', hs, hc⟩ := h t htg
    exact ⟨t', hkeep t' ht' hc, hs, hc⟩
  cases e with
  | keep t =>
    simp only [AEv.out, List.mem_singleton] at h0
    subst h0
    obtain ⟨t', a1, a2, a3⟩ := old t0 (hok _ he).1
    exact ⟨t', a1, a2, a3⟩
  | attr t v =>
    simp only [AEv.out, List.mem_cons, List.not_mem_nil, or_false] at h0
    rcases h0 with rfl | rfl
    · obtain ⟨t', a1, a2, a3⟩ := old t (hok _ he).1
      exact ⟨t', a1, a2, a3⟩
    · refine ⟨{ attrNodeT t v with role := ensureColon (attrNodeT t v).role }, ?_, rfl, ?_⟩
      · rw [ht, List.mem_map]
        exact ⟨attrNodeT t v, List.mem_flatMap.mpr ⟨_, he, by simp [AEv.out]⟩, rfl⟩
      · simp [attrNodeT, ensureColon_concept]

end Penman

/-
  Penman.Props.C05a — the `rearrange` part of property C05.

  Property text → theorems (vocabulary in `Penman/Spec/Rearrange.lean`):

  * "rearranging a tree's branches under any key with or without
    attributes-first … leave[s] the graph's content unchanged"
      → `rearrange_graph`  (top equal, triples a permutation, metadata equal,
        for any `key`, any `attributesFirst`, any model used for the keys),
        under the hypothesis that `interpret` succeeds on the original tree.
        Epidata: equal up to order and up to the position of `POP` markers when the
        triples are distinct (`popless`); the unrestricted statement is FALSE
        (`POP` moves to the new last branch; with duplicate triples the
        first-wins alignment can change) — two counterexamples by `decide`.
      → `rearrange_interpretNode`: the raw triple / epidata lists of
        `_interpret_node` are permuted (epidata up to `POP`), no hypothesis on duplicates.
  * "keeps each node's set of branches"
      → `rearrange_perm` (`NodePerm`: at every node the branch list is a
        permutation of the recursively rearranged branches; variables of the tree
        are permuted), `rearrange_perm_tree`.
  * "and its concept in first position"
      → `rearrange_concept_first`, `rearrange_node_eq` (a leading `/` branch is
        kept first and untouched, the remaining branches are sorted).
  * "orders the rest by the key"
      → `kvLe_total_preorder` (the comparison is a total order on keys of one
        shape), `branchKey_shape_fixed` (all keys of one call have one shape),
        `sortBranches_spec` (permutation, sorted), `rearrange_sorted`,
        `rearrange_sorted_tree` (sorted at every node that `rearrange` visits).
  * "(numeric role suffixes numerically, inverted roles last for the canonical key)"
      → `order_keys_alphanumericOrder`, `order_keys_numeric`,
        `order_keys_inverted_last`, `order_keys_attributes_first`.
  * "and is stable for equal keys"
      → `sortBranches_spec` (clauses 3 and 4), `rearrange_node_eq`.
  * additionally: `rearrange_idem` (idempotent for every key — every key is
    total), `rearrange_fixed_iff_sorted`.

  Nothing is left UNPROVED. FALSE statements (with counterexamples below):
  full preservation of epidata by `rearrange` (see `rearrange_graph`).
-/
import Penman.Proofs.RearrangeInterp
namespace Penman
open RA

/-! ### example data -/

/-- `(a / A :ARG1 (b / B :q 1 :p 2) :ARG0 c)` -/
def c05Node : Node :=
  .mk (some ['a']) (.atom ['/'] (.str ['A'])
    (.sub [':','A','R','G','1']
      (.mk (some ['b']) (.atom ['/'] (.str ['B'])
        (.atom [':','q'] (.str ['1']) (.atom [':','p'] (.str ['2']) .nil))))
    (.atom [':','A','R','G','0'] (.str ['c']) .nil)))

/-- `(a / A :ARG0 c :ARG1 (b / B :p 2 :q 1))` -/
def c05NodeSorted : Node :=
  .mk (some ['a']) (.atom ['/'] (.str ['A'])
    (.atom [':','A','R','G','0'] (.str ['c'])
    (.sub [':','A','R','G','1']
      (.mk (some ['b']) (.atom ['/'] (.str ['B'])
        (.atom [':','p'] (.str ['2']) (.atom [':','q'] (.str ['1']) .nil)))) .nil)))

/-- the concrete run used by the examples: canonical key, no attributes-first -/
theorem c05Node_rearranged : rearrangeNode {} [] (some [.canonical]) c05Node = c05NodeSorted := by
  simp only [c05Node, c05NodeSorted, rearrangeNode, rearrangeKids, sortBranches_pair, if_true]
  have h1 : branchLe {} [] (some [.canonical]) ([':','q'], .atom (.str ['1']))
      ([':','p'], .atom (.str ['2'])) = false := by decide
  have h2 : ∀ n, branchLe {} [] (some [.canonical]) ([':','A','R','G','1'], .node n)
      ([':','A','R','G','0'], .atom (.str ['c'])) = false := by
    intro n; simp [branchLe, branchKey, branchTargetInVars_nil]; decide
  simp only [h1, h2]
  simp [Branches.ofList]

/-! ### the branch multiset is preserved -/

/-- At every node the branches of the result are a permutation of the
    (recursively rearranged) branches of the original, and the variables of the
    tree are permuted. Any key, any `vars`. -/
theorem rearrange_perm (m : Model) (vars : List Str) (key : Option (List KeyFn)) (n : Node) :
    NodePerm n (rearrangeNode m vars key n) ∧
    (rearrangeNode m vars key n).var = n.var ∧
    (rearrangeNode m vars key n).vars.Perm n.vars ∧
    ((rearrangeNode m vars key n).nodes.map (·.1)).Perm (n.nodes.map (·.1)) :=
  ⟨rearrangeNode_perm m vars key n, rearrangeNode_var m vars key n,
    rearrangeNode_vars_perm m vars key n, rearrangeNode_vars_perm m vars key n⟩

example : NodePerm c05Node c05NodeSorted ∧ (c05Node == c05NodeSorted) = false :=
  ⟨c05Node_rearranged ▸ (rearrange_perm {} [] (some [.canonical]) c05Node).1, by decide⟩

theorem rearrange_perm_tree (m : Model) (key : Option (List KeyFn)) (af : Bool) (t : Tree) :
    NodePerm t.node (rearrange m key af t).node ∧
    (rearrange m key af t).node.vars.Perm t.node.vars ∧
    (rearrange m key af t).metadata = t.metadata :=
  ⟨rearrangeNode_perm m _ key t.node, rearrangeNode_vars_perm m _ key t.node, rfl⟩

example : (rearrange {} (some [.canonical]) false { node := c05Node, metadata := [(['i','d'], ['1'])] }).node
    = c05NodeSorted := c05Node_rearranged

/-- A leading `/` branch stays first and is not touched (a node target of a
    leading `/` is not even entered); the other branches are rearranged
    recursively and sorted. -/
theorem rearrange_concept_first (m : Model) (vars : List Str) (key : Option (List KeyFn)) (v : Option Str)
    (a : Atom) (n : Node) (rest : Branches) :
    rearrangeNode m vars key (.mk v (.atom ['/'] a rest)) =
      .mk v (.atom ['/'] a (Branches.ofList (sortBranches m vars key (rearrangeKids m vars key rest)))) ∧
    rearrangeNode m vars key (.mk v (.sub ['/'] n rest)) =
      .mk v (.sub ['/'] n (Branches.ofList (sortBranches m vars key (rearrangeKids m vars key rest)))) := by
  constructor <;> simp [rearrangeNode]

example : ∃ rest, rearrangeNode {} [] (some [.canonical]) c05Node = .mk (some ['a']) (.atom ['/'] (.str ['A']) rest) :=
  ⟨_, (rearrange_concept_first {} [] (some [.canonical]) _ _ (.mk none .nil) _).1⟩

/-- `_rearrange` in one equation, for every shape of node: leading `/` branch
    (if any) ++ stable sort of the recursively rearranged other branches. -/
theorem rearrange_node_eq (m : Model) (vars : List Str) (key : Option (List KeyFn)) (v : Option Str)
    (bs : Branches) :
    rearrangeNode m vars key (.mk v bs) =
      .mk v (bs.leading.append (Branches.ofList
        (sortBranches m vars key (bs.sortedPart.toList.map (rearrangeBranch m vars key))))) := by
  rw [rearrangeNode_eq, rearrangeKids_eq_map]

example : (Branches.atom [':','x'] (.str ['1']) (.atom ['/'] (.str ['c']) .nil)).leading = .nil ∧
    (Branches.atom ['/'] (.str ['c']) (.atom [':','x'] (.str ['1']) .nil)).leading =
      .atom ['/'] (.str ['c']) .nil := ⟨rfl, rfl⟩

/-! ### the comparison is a total order on keys of one shape; the sort -/

/-- `kvLe` (Python's `<=` on key lists) restricted to keys of one shape is
    reflexive, total, transitive and antisymmetric. -/
theorem kvLe_total_preorder {a b c : List KV} (hab : kvShape a = kvShape b) (hbc : kvShape b = kvShape c) :
    kvLe a a = true ∧ (kvLe a b || kvLe b a) = true ∧
    (kvLe a b = true → kvLe b c = true → kvLe a c = true) ∧
    (kvLe a b = true → kvLe b a = true → a = b) :=
  ⟨kvLe_refl a, kvLe_total hab, kvLe_trans hab hbc, kvLe_antisymm hab⟩

example : kvShape [KV.b false, .s [':','o','p'], .n 2] = kvShape [KV.b true, .s [':','a'], .n 0] := by decide

/-- the shape hypothesis is needed: across shapes `kvLe` is not transitive -/
example : kvLe [.b true] [.n 0] = true ∧ kvLe [.n 0] [.b false] = true ∧ kvLe [.b true] [.b false] = false := by
  decide

/-- all sort keys of one `rearrange` call have the same shape -/
theorem branchKey_shape_fixed (m : Model) (vars : List Str) (key : Option (List KeyFn)) (a b : Branch) :
    kvShape (branchKey m vars key a) = kvShape (branchKey m vars key b) :=
  (branchKey_shape m vars key a).trans (branchKey_shape m vars key b).symm

example : kvShape (branchKey {} [] (some [.canonical, .alphanumeric]) ([':','a'], .atom .none)) = [0, 0, 1, 2, 1, 2] := by
  decide

/-- `sortBranches` returns a permutation that is sorted by the key and stable:
    every already sorted sub-list of the input (in particular two branches
    `a` before `b` with `a ≤ b`) keeps its order, and the branches of any one key
    are exactly the input's, in the input's order. -/
theorem sortBranches_spec (m : Model) (vars : List Str) (key : Option (List KeyFn)) (bs : List Branch) :
    (sortBranches m vars key bs).Perm bs ∧
    (sortBranches m vars key bs).Pairwise
      (fun a b => kvLe (branchKey m vars key a) (branchKey m vars key b) = true) ∧
    (∀ ys : List Branch,
      ys.Pairwise (fun a b => kvLe (branchKey m vars key a) (branchKey m vars key b) = true) →
      ys.Sublist bs → ys.Sublist (sortBranches m vars key bs)) ∧
    (∀ k : List KV, (sortBranches m vars key bs).filter (fun b => branchKey m vars key b = k) =
      bs.filter (fun b => branchKey m vars key b = k)) :=
  ⟨sortBranches_perm m vars key bs, sortBranches_pairwise m vars key bs,
    fun _ hp hs => sortBranches_sublist m vars key hp hs, sortBranches_filter_key m vars key bs⟩

/-- two branches with equal keys are not swapped, two with decreasing keys are -/
example :
    sortBranches {} [] (some [.alphanumeric]) [([':','x'], .atom (.str ['2'])), ([':','x'], .atom (.str ['1']))] =
      [([':','x'], .atom (.str ['2'])), ([':','x'], .atom (.str ['1']))] ∧
    sortBranches {} [] (some [.alphanumeric]) [([':','y'], .atom (.str ['2'])), ([':','x'], .atom (.str ['1']))] =
      [([':','x'], .atom (.str ['1'])), ([':','y'], .atom (.str ['2']))] := by
  constructor
  · rw [sortBranches_pair, if_pos (by decide)]
  · rw [sortBranches_pair, if_neg (by decide)]

/-- The result of `rearrangeNode` is sorted at every node (below a leading `/`
    branch nothing is sorted, because `_rearrange` does not go there). -/
theorem rearrange_sorted (m : Model) (vars : List Str) (key : Option (List KeyFn)) (n : Node) :
    NodeSorted (fun a b => kvLe (branchKey m vars key a) (branchKey m vars key b))
      (rearrangeNode m vars key n) :=
  rearrangeNode_sorted m vars key n

example : NodeSorted (fun a b => kvLe (branchKey {} [] (some [.canonical]) a) (branchKey {} [] (some [.canonical]) b))
    c05NodeSorted := c05Node_rearranged ▸ rearrange_sorted {} [] (some [.canonical]) c05Node

theorem rearrange_sorted_tree (m : Model) (key : Option (List KeyFn)) (af : Bool) (t : Tree) :
    NodeSorted (fun a b => kvLe (branchKey m (if af then t.node.vars else []) key a)
        (branchKey m (if af then t.node.vars else []) key b))
      (rearrange m key af t).node :=
  rearrangeNode_sorted m _ key t.node

/-- the sorted part of the example's top node, spelled out -/
example : c05NodeSorted.bs.sortedPart.toList.Pairwise
    (fun a b => kvLe (branchKey {} [] (some [.canonical]) a) (branchKey {} [] (some [.canonical]) b) = true) := by
  have h := c05Node_rearranged ▸ rearrange_sorted {} [] (some [.canonical]) c05Node
  cases h with | mk hp _ => exact hp

/-! ### what the keys mean -/

/-- `alphanumeric_order`: a role `name ++ digits` (name non-empty, ending in a
    non-digit, with no line feed before its last character; digits a non-empty
    run of ASCII digits) has key `(name, int(digits))`; a role not ending in a
    digit or line feed has key `(role, 0)`. -/
theorem order_keys_alphanumericOrder :
    (∀ (init : Str) (c : Char) (digs : Str), isAsciiDigit c = false → digs ≠ [] →
      digs.all isAsciiDigit = true → init.contains '\n' = false →
      alphanumericOrder (init ++ c :: digs) = (init ++ [c], natOfDigits digs)) ∧
    (∀ (init : Str) (c : Char), isAsciiDigit c = false → c ≠ '\n' →
      alphanumericOrder (init ++ [c]) = (init ++ [c], 0)) ∧
    alphanumericOrder [] = ([], 0) :=
  ⟨alphanumericOrder_digits, alphanumericOrder_nodigit, alphanumericOrder_nil⟩

example : alphanumericOrder ":op10".toList = (":op".toList, 10) ∧
    alphanumericOrder ":ARG1-of".toList = (":ARG1-of".toList, 0) ∧
    alphanumericOrder ":op007".toList = (":op".toList, 7) := by decide

/-- Same role name, smaller number: strictly smaller under the alphanumeric
    key, and under the canonical key when both roles have the same direction. -/
theorem order_keys_numeric (m : Model) {r1 r2 p : Str} {n1 n2 : Nat}
    (h1 : alphanumericOrder r1 = (p, n1)) (h2 : alphanumericOrder r2 = (p, n2)) (hlt : n1 < n2) :
    (kvLe (evalKeys m [.alphanumeric] r1) (evalKeys m [.alphanumeric] r2) = true ∧
     kvLe (evalKeys m [.alphanumeric] r2) (evalKeys m [.alphanumeric] r1) = false) ∧
    (m.isRoleInverted r1 = m.isRoleInverted r2 →
     kvLe (evalKeys m [.canonical] r1) (evalKeys m [.canonical] r2) = true ∧
     kvLe (evalKeys m [.canonical] r2) (evalKeys m [.canonical] r1) = false) :=
  ⟨alphanumeric_key_lt m h1 h2 hlt, fun hi => canonical_key_lt m hi h1 h2 hlt⟩

/-- `:op2` sorts strictly before `:op10` (although `":op10" < ":op2"` as strings) -/
example :
    kvLe (evalKeys {} [.alphanumeric] ":op2".toList) (evalKeys {} [.alphanumeric] ":op10".toList) = true ∧
    kvLe (evalKeys {} [.alphanumeric] ":op10".toList) (evalKeys {} [.alphanumeric] ":op2".toList) = false ∧
    kvLe (evalKeys {} [.canonical] ":op2".toList) (evalKeys {} [.canonical] ":op10".toList) = true ∧
    kvLe (evalKeys {} [.canonical] ":op10".toList) (evalKeys {} [.canonical] ":op2".toList) = false ∧
    strLt ":op10".toList ":op2".toList = true := by decide

example : alphanumericOrder ":op2".toList = (":op".toList, 2) ∧
    alphanumericOrder ":op10".toList = (":op".toList, 10) ∧ 2 < 10 ∧
    (Model.isRoleInverted {} ":op2".toList = Model.isRoleInverted {} ":op10".toList) := by decide

/-- The canonical (and the inverted-last) key puts inverted roles after all
    others, whatever their names. -/
theorem order_keys_inverted_last (m : Model) {r1 r2 : Str}
    (h1 : m.isRoleInverted r1 = false) (h2 : m.isRoleInverted r2 = true) :
    (kvLe (evalKeys m [.canonical] r1) (evalKeys m [.canonical] r2) = true ∧
     kvLe (evalKeys m [.canonical] r2) (evalKeys m [.canonical] r1) = false) ∧
    (kvLe (evalKeys m [.invertedLast] r1) (evalKeys m [.invertedLast] r2) = true ∧
     kvLe (evalKeys m [.invertedLast] r2) (evalKeys m [.invertedLast] r1) = false) :=
  ⟨canonical_key_inverted_last m h1 h2, invertedLast_key_inverted_last m h1 h2⟩

example : Model.isRoleInverted {} ":mod".toList = false ∧ Model.isRoleInverted {} ":ARG0-of".toList = true ∧
    kvLe (evalKeys {} [.canonical] ":mod".toList) (evalKeys {} [.canonical] ":ARG0-of".toList) = true ∧
    kvLe (evalKeys {} [.alphanumeric] ":mod".toList) (evalKeys {} [.alphanumeric] ":ARG0-of".toList) = false := by
  decide

/-- Attributes first: a branch whose target is not one of `vars` sorts strictly
    before one whose target is (a variable or a nested node); among branches with
    the same flag — all branches when `attributesFirst = false`, i.e. `vars = []` —
    only the role key counts. -/
theorem order_keys_attributes_first (m : Model) (vars : List Str) (key : Option (List KeyFn)) {a b : Branch} :
    (branchTargetInVars vars a.2 = false → branchTargetInVars vars b.2 = true →
      kvLe (branchKey m vars key a) (branchKey m vars key b) = true ∧
      kvLe (branchKey m vars key b) (branchKey m vars key a) = false) ∧
    (∀ ks, branchTargetInVars vars a.2 = branchTargetInVars vars b.2 →
      kvLe (branchKey m vars (some ks) a) (branchKey m vars (some ks) b) =
        kvLe (evalKeys m ks a.1) (evalKeys m ks b.1)) ∧
    (∀ t, branchTargetInVars [] t = false) :=
  ⟨fun ha hb => branchLe_attr_first m vars key ha hb, fun ks h => branchLe_same_flag m vars ks h,
    branchTargetInVars_nil⟩

example : branchTargetInVars [['a'], ['b']] (.atom (.str ['x'])) = false ∧
    branchTargetInVars [['a'], ['b']] (.atom (.str ['b'])) = true ∧
    branchTargetInVars [['a'], ['b']] (.node (.mk (some ['b']) .nil)) = true := by decide

/-! ### the graph's content -/

/-- If `interpret` succeeds on a tree, it succeeds on the rearranged tree (any
    key, with or without attributes-first, keys computed with any model `m'`), and the
    graph has the same top, the same triples up to order and the same metadata.
    If moreover the triples are distinct, the epidata are the same up to order
    and up to `POP` markers (which `interpret` attaches to the last branch of a
    nested node, so they necessarily move). -/
theorem rearrange_graph (isAlpha : Char → Bool) (m m' : Model) (key : Option (List KeyFn)) (af : Bool)
    (t : Tree) (g : Graph) (h : interpret isAlpha m t = .ok g) :
    ∃ g', interpret isAlpha m (rearrange m' key af t) = .ok g' ∧
      g'.top = g.top ∧ g'.triples.Perm g.triples ∧ g'.metadata = g.metadata ∧
      (g.triples.Nodup →
        (popless g'.epidata).Perm (popless g.epidata) ∧
        ∀ tr, (AList.get? g'.epidata tr).map (·.filter (fun e => !e.isPop)) =
              (AList.get? g.epidata tr).map (·.filter (fun e => !e.isPop))) :=
  interpret_nodePerm isAlpha m t _ g (rearrangeNode_perm m' _ key t.node) h

/-- The same one level down, without any distinctness hypothesis: the raw
    triple list and the raw epidata list (before `dict()` drops duplicates) of
    `_interpret_node` are permuted, the latter up to `POP`. Any `variables`. -/
theorem rearrange_interpretNode (isAlpha : Char → Bool) (m m' : Model) (vars : List Str)
    (key : Option (List KeyFn)) (vs : List Str) (n : Node) (ts : List Triple) (es : List (Triple × List Epi))
    (h : interpretNode isAlpha m vs n = .ok (ts, es)) :
    ∃ ts' es', interpretNode isAlpha m vs (rearrangeNode m' vars key n) = .ok (ts', es') ∧
      ts'.Perm ts ∧ (popless es').Perm (popless es) :=
  NodePerm.interp isAlpha m vs n (rearrangeNode_perm m' vars key n) ts es h

example : ∃ ts es, interpretNode (fun _ => false) {} [['a'], ['b']] c05Node = .ok (ts, es) ∧ ts.length = 6 :=
  ⟨_, _, rfl, by decide⟩

/-- non-vacuity: `interpret` succeeds on the example, with distinct triples -/
example : ∃ g, interpret (fun _ => false) {} { node := c05Node } = .ok g ∧ g.triples.Nodup ∧
    g.triples.length = 6 := by
  refine ⟨_, rfl, ?_, ?_⟩ <;> decide

/-- the triple `(b :q 1)` of the example -/
def c05Triple : Triple := ⟨['b'], [':','q'], .str ['1']⟩

/-- FALSE: "`rearrange` preserves the epidata". On the example, `POP` is on
    `(b :p 2)` before and on `(b :q 1)` after rearranging (distinct triples). -/
example :
    (match interpret (fun _ => false) {} { node := c05Node } with
      | .ok g => AList.get? g.epidata c05Triple | .error _ => none) = some [] ∧
    (match interpret (fun _ => false) {} (rearrange {} (some [.canonical]) false { node := c05Node }) with
      | .ok g => AList.get? g.epidata c05Triple | .error _ => none) = some [.pop] := by
  constructor
  · decide
  · simp only [rearrange, Bool.false_eq_true, if_false, c05Node_rearranged]
    decide

/-- `(t :z (a :x b~1) :y (b :x-of a~2))`: the triple `(a :x b)` occurs twice -/
def c05Dup : Node :=
  .mk (some ['t'])
    (.sub [':','z'] (.mk (some ['a']) (.atom [':','x'] (.str ['b','~','1']) .nil))
    (.sub [':','y'] (.mk (some ['b']) (.atom [':','x','-','o','f'] (.str ['a','~','2']) .nil)) .nil))

def c05DupSorted : Node :=
  .mk (some ['t'])
    (.sub [':','y'] (.mk (some ['b']) (.atom [':','x','-','o','f'] (.str ['a','~','2']) .nil))
    (.sub [':','z'] (.mk (some ['a']) (.atom [':','x'] (.str ['b','~','1']) .nil)) .nil))

theorem c05Dup_rearranged : rearrangeNode {} [] (some [.alphanumeric]) c05Dup = c05DupSorted := by
  have h2 : ∀ m n n', branchLe m [] (some [.alphanumeric]) ([':','z'], .node n) ([':','y'], .node n') = false := by
    intro m n n'
    simp only [branchLe, branchKey, branchTargetInVars_nil, evalKeys, KeyFn.eval, List.flatMap_cons,
      List.flatMap_nil, List.append_nil]
    decide
  simp [c05Dup, c05DupSorted, rearrangeNode, rearrangeKids, sortBranches_pair, sortBranches_singleton, h2,
    Branches.ofList]

/-- FALSE without `g.triples.Nodup`: "the alignments in the epidata are
    preserved". The first occurrence of a duplicated triple wins in `interpret`,
    and rearranging changes which one is first: `~1` before, `~2` after. -/
example :
    (match interpret (fun _ => false) {} { node := c05Dup } with
      | .ok g => AList.get? g.epidata ⟨['a'], [':','x'], .str ['b']⟩ | .error _ => none)
      = some [.aln none [1], .pop] ∧
    (match interpret (fun _ => false) {} (rearrange {} (some [.alphanumeric]) false { node := c05Dup }) with
      | .ok g => AList.get? g.epidata ⟨['a'], [':','x'], .str ['b']⟩ | .error _ => none)
      = some [.aln none [2], .pop] := by
  constructor
  · decide
  · simp only [rearrange, Bool.false_eq_true, if_false, c05Dup_rearranged]
    decide

/-! ### idempotence -/

/-- `rearrange` is idempotent, for every key and both settings of
    attributes-first (every selectable key is a total preorder on roles). -/
theorem rearrange_idem (m : Model) (key : Option (List KeyFn)) (af : Bool) (t : Tree) :
    rearrange m key af (rearrange m key af t) = rearrange m key af t :=
  rearrange_idem_lemma m key af t

example : rearrangeNode {} [] (some [.canonical]) c05NodeSorted = c05NodeSorted := by
  have := rearrangeNode_idem {} [] (some [.canonical]) c05Node
  rwa [c05Node_rearranged] at this

/-- the fixed points of `rearrangeNode` are exactly the trees that are sorted at every node -/
theorem rearrange_fixed_iff_sorted (m : Model) (vars : List Str) (key : Option (List KeyFn)) (n : Node) :
    rearrangeNode m vars key n = n ↔
      NodeSorted (fun a b => kvLe (branchKey m vars key a) (branchKey m vars key b)) n :=
  rearrangeNode_eq_self_iff m vars key n

/-- a concept that is not the first branch is sorted like any other branch and
    may end up first; the second pass then leaves it alone: `(a :x 1 / c)` -/
example : rearrangeNode {} [] (some [.alphanumeric])
      (.mk (some ['a']) (.atom [':','x'] (.str ['1']) (.atom ['/'] (.str ['c']) .nil))) =
    .mk (some ['a']) (.atom ['/'] (.str ['c']) (.atom [':','x'] (.str ['1']) .nil)) := by
  simp only [rearrangeNode, rearrangeKids, sortBranches_pair]
  rw [if_neg (by decide), if_neg (by decide)]
  rfl

end Penman

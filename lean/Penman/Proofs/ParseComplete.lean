/-
  The converse of the round trip: whatever the parser accepts is the token
  list of a well-formed concrete syntax tree (`CNode`, i.e. a sentence of
  the documented grammar with its robustness extensions), and the tree
  returned is that syntax tree's abstract tree.
-/
import Penman.Proofs.ParseRoundTrip
namespace Penman
set_option linter.unusedSimpArgs false

/-- inversion of `takeAln` after the token `tok` -/
theorem takeAln_inv {c : PCtx} {tok : Tok} {ts : List Tok} {v : Str × List Tok}
    (h : takeAln c tok.text ts = .ok v) :
    ∃ x : TText, x.tok = tok ∧ x.wfAln = true ∧ x.text = v.1 ∧ tok :: ts = x.toks ++ v.2 := by
  cases ts with
  | nil => simp [takeAln] at h
  | cons a ts' =>
    simp only [takeAln] at h
    split at h
    · rename_i ha
      cases h
      exact ⟨⟨tok, some a⟩, rfl, by simp [TText.wfAln, ha], rfl, rfl⟩
    · cases h
      exact ⟨⟨tok, none⟩, rfl, rfl, rfl, rfl⟩

theorem parse_complete (c : PCtx) (f : Nat) :
    (∀ toks v, parseNode c f toks = .ok v →
      ∃ k : CNode, k.wf = true ∧ k.tree = v.1 ∧ toks = k.toks ++ v.2) ∧
    (∀ toks v, parseEdges c f toks = .ok v →
      ∃ (es : CEdges) (rp : Tok), es.wf = true ∧ rp.ty = .RPAREN ∧ es.tree = v.1 ∧ toks = es.toks ++ rp :: v.2) := by
  induction f with
  | zero => constructor <;> intro toks _ h <;> simp [parseNode, parseEdges] at h
  | succ f ih =>
    obtain ⟨ihN, ihE⟩ := ih
    constructor
    · intro toks v h
      cases toks with
      | nil => simp [parseNode, expectTy, bind, Except.bind] at h
      | cons t0 ts =>
        by_cases h0 : t0.ty = .LPAREN
        · simp only [parseNode, expectTy, h0, if_true, bind, Except.bind] at h
          cases ts with
          | nil => cases h
          | cons t ts1 =>
            simp only at h
            by_cases hr : t.ty = .RPAREN
            · simp only [hr, if_true, pure, Except.pure] at h; cases h
              exact ⟨.empty t0 t, by simp [CNode.wf, h0, hr], rfl, rfl⟩
            · by_cases hs : t.ty = .SYMBOL
              · simp only [hr, hs, if_true, if_false] at h
                cases ts1 with
                | nil => cases h
                | cons s ts3 =>
                  simp only at h
                  by_cases hsl : s.ty = .SLASH
                  · simp only [hsl, if_true] at h
                    cases ts3 with
                    | nil => cases h
                    | cons k ts4 =>
                      simp only at h
                      by_cases hk : isSymOrStr k = true
                      · simp only [hk, if_true] at h
                        cases hA : takeAln c k.text ts4 with
                        | error e => simp [hA] at h
                        | ok y =>
                          simp only [hA] at h
                          cases hB : parseEdges c f y.2 with
                          | error e => simp [hB] at h
                          | ok z =>
                            simp only [hB, pure, Except.pure] at h; cases h
                            obtain ⟨x, hx1, hx2, hx3, hx4⟩ := takeAln_inv hA
                            obtain ⟨es, rp, he1, he2, he3, he4⟩ := ihE _ _ hB
                            refine ⟨.mk t0 t (some (s, some x)) es rp, ?_, ?_, ?_⟩
                            · simp [CNode.wf, slashWf, h0, hs, hsl, hx1, hk, hx2, he1, he2]
                            · simp [CNode.tree, hx3, he3]
                            · simp [CNode.toks, slashToks, hx4, he4]
                      · simp only [hk, if_false] at h
                        cases hB : parseEdges c f (k :: ts4) with
                        | error e => simp [hB] at h
                        | ok z =>
                          simp only [hB, pure, Except.pure] at h; cases h
                          obtain ⟨es, rp, he1, he2, he3, he4⟩ := ihE _ _ hB
                          refine ⟨.mk t0 t (some (s, none)) es rp, ?_, ?_, ?_⟩
                          · simp [CNode.wf, slashWf, h0, hs, hsl, he1, he2]
                          · simp [CNode.tree, he3]
                          · simp [CNode.toks, slashToks, he4]
                  · simp only [hsl, if_false] at h
                    cases hB : parseEdges c f (s :: ts3) with
                    | error e => simp [hB] at h
                    | ok z =>
                      simp only [hB, pure, Except.pure] at h; cases h
                      obtain ⟨es, rp, he1, he2, he3, he4⟩ := ihE _ _ hB
                      refine ⟨.mk t0 t none es rp, ?_, ?_, ?_⟩
                      · simp [CNode.wf, slashWf, h0, hs, he1, he2]
                      · simp [CNode.tree, he3]
                      · simp [CNode.toks, slashToks, he4]
              · simp [hr, hs] at h
        · simp [parseNode, expectTy, h0, bind, Except.bind] at h
    · intro toks v h
      cases toks with
      | nil => simp [parseEdges] at h
      | cons t ts =>
        simp only [parseEdges] at h
        by_cases h1 : t.ty = .RPAREN
        · simp only [h1, if_true] at h; cases h
          exact ⟨.nil, t, rfl, h1, rfl, rfl⟩
        by_cases h2 : t.ty = .ROLE
        · simp only [h1, h2, if_false, ne_eq, not_true_eq_false, bind, Except.bind] at h
          cases hA : takeAln c t.text ts with
          | error e => simp [hA] at h
          | ok x1 =>
            simp only [hA] at h
            obtain ⟨r, hr1, hr2, hr3, hr4⟩ := takeAln_inv hA
            cases hts1 : x1.2 with
            | nil => simp [hts1, throw, throwThe, MonadExceptOf.throw] at h
            | cons n ts2 =>
              simp only [hts1] at h
              by_cases h3 : isSymOrStr n = true
              · simp only [h3, if_true] at h
                cases hB : takeAln c n.text ts2 with
                | error e => simp [hB] at h
                | ok y =>
                  simp only [hB] at h
                  cases hC : parseEdges c f y.2 with
                  | error e => simp [hC] at h
                  | ok z =>
                    simp only [hC, pure, Except.pure] at h; cases h
                    obtain ⟨a, ha1, ha2, ha3, ha4⟩ := takeAln_inv hB
                    obtain ⟨es, rp, he1, he2, he3, he4⟩ := ihE _ _ hC
                    refine ⟨.atom r (some a) es, rp, ?_, he2, ?_, ?_⟩
                    · simp [CEdges.wf, hr1, h2, hr2, ha1, h3, ha2, he1]
                    · simp [CEdges.tree, hr3, ha3, he3]
                    · rw [hr4, hts1, ha4, he4]; simp [CEdges.toks]
              by_cases h4 : n.ty = .LPAREN
              · simp only [h3, h4, if_true, if_false] at h
                cases hB : parseNode c f (n :: ts2) with
                | error e => simp [hB] at h
                | ok y =>
                  simp only [hB] at h
                  cases hC : parseEdges c f y.2 with
                  | error e => simp [hC] at h
                  | ok z =>
                    simp only [hC, pure, Except.pure] at h; cases h
                    obtain ⟨k, hk1, hk2, hk3⟩ := ihN _ _ hB
                    obtain ⟨es, rp, he1, he2, he3, he4⟩ := ihE _ _ hC
                    refine ⟨.sub r k es, rp, ?_, he2, ?_, ?_⟩
                    · simp [CEdges.wf, hr1, h2, hr2, hk1, he1]
                    · simp [CEdges.tree, hr3, hk2, he3]
                    · rw [hr4, hts1, hk3, he4]; simp [CEdges.toks]
              by_cases h5 : n.ty = .ROLE ∨ n.ty = .RPAREN
              · simp only [h3, h4, h5, if_true, if_false] at h
                cases hC : parseEdges c f (n :: ts2) with
                | error e => simp [hC] at h
                | ok z =>
                  simp only [hC, pure, Except.pure] at h; cases h
                  obtain ⟨es, rp, he1, he2, he3, he4⟩ := ihE _ _ hC
                  refine ⟨.atom r none es, rp, ?_, he2, ?_, ?_⟩
                  · simp [CEdges.wf, hr1, h2, hr2, he1]
                  · simp [CEdges.tree, hr3, he3]
                  · rw [hr4, hts1, he4]; simp [CEdges.toks]
              · simp [h3, h4, h5, throw, throwThe, MonadExceptOf.throw] at h
        · simp [h1, h2] at h

/-- **the parser accepts exactly the sentences of the grammar** : `parseNode`
    succeeds on `toks` with tree `t` and remainder `rest` iff `toks` is the
    token list of a well-formed concrete syntax tree with abstract tree `t`,
    followed by `rest` -/
theorem parseNode_ok_iff (c : PCtx) (f : Nat) (toks : List Tok) (hf : toks.length < f) (t : Node) (rest : List Tok) :
    parseNode c f toks = .ok (t, rest) ↔ ∃ ts, TreeToks t ts ∧ toks = ts ++ rest := by
  constructor
  · intro h
    obtain ⟨k, h1, h2, h3⟩ := (parse_complete c f).1 toks _ h
    exact ⟨k.toks, ⟨k, h1, h2, rfl⟩, h3⟩
  · rintro ⟨ts, h, rfl⟩
    exact parseNode_treeToks c t ts rest f h (by have := h.size_le; simp at hf; omega)

end Penman

/-
  Penman.Proofs.Configure2 — the cell store built by `configure` is a forest
  (every `.node w` edge points to a cell created later than the cell holding it),
  hence `buildNode` never runs out of fuel.
-/
import Penman.Proofs.Configure1
namespace Penman
namespace Cfg

/-- every node edge points forward in creation (= key) order -/
def Forest (c : Cells) : Prop :=
  ∀ p ∈ c, ∀ e ∈ p.2, ∀ w, e.tgt = .node w →
    (ckeys c).idxOf p.1 < (ckeys c).idxOf w ∧ w ∈ ckeys c

def Own (st : St) (v : Str) : Prop := AList.get? st.nm v = some NM.own

structure Good (st : St) : Prop where
  own : ∀ k, k ∈ ckeys st.cells ↔ Own st k
  site : ∀ v u, AList.get? st.nm v = some (NM.site u) → Own st u
  forest : Forest st.cells

/-- cells are only ever appended -/
def Ext (st st' : St) : Prop := ckeys st.cells <+: ckeys st'.cells

theorem Ext.refl (st : St) : Ext st st := List.prefix_refl _
theorem Ext.trans {a b c : St} (h1 : Ext a b) (h2 : Ext b c) : Ext a c := List.IsPrefix.trans h1 h2

theorem idxOf_prefix {l l' : List Str} (h : l <+: l') {a : Str} (ha : a ∈ l) : l'.idxOf a = l.idxOf a := by
  obtain ⟨t, rfl⟩ := h
  simp [List.idxOf_append, ha]

theorem mem_keys_of_mem {c : Cells} {p : Str × List Edge} (h : p ∈ c) : p.1 ∈ ckeys c := by
  simp only [ckeys, AList.keys, List.mem_map]; exact ⟨p, h, rfl⟩

theorem forest_of_members {c c' : Cells} (hF : Forest c) (hk : ckeys c <+: ckeys c')
    (hm : ∀ p ∈ c', p ∈ c ∨ (∀ e ∈ p.2, ∀ w, e.tgt = .node w →
        (ckeys c').idxOf p.1 < (ckeys c').idxOf w ∧ w ∈ ckeys c')) : Forest c' := by
  intro p hp e he w hw
  rcases hm p hp with h | h
  · obtain ⟨h1, h2⟩ := hF p h e he w hw
    rw [idxOf_prefix hk (mem_keys_of_mem h), idxOf_prefix hk h2]
    exact ⟨h1, List.IsPrefix.mem h2 hk⟩
  · exact h e he w hw

theorem cell_mem {st : St} {v : Str} {e : Edge} (h : e ∈ st.cell v) :
    ∃ es, (v, es) ∈ st.cells ∧ e ∈ es := by
  unfold St.cell at h
  cases hg : AList.get? st.cells v with
  | none => simp [hg] at h
  | some es => simp [hg] at h; exact ⟨es, mem_of_get? hg, h⟩

theorem keys_set_of_mem {c : Cells} {k : Str} (es : List Edge) (h : k ∈ ckeys c) :
    ckeys (AList.set c k es) = ckeys c := by
  simp only [ckeys] at h ⊢; rw [keys_set]; simp [h]

theorem keys_set_of_not_mem {c : Cells} {k : Str} (es : List Edge) (h : k ∉ ckeys c) :
    ckeys (AList.set c k es) = ckeys c ++ [k] := by
  simp only [ckeys] at h ⊢; rw [keys_set]; simp [h]

/-- replacing the contents of an existing cell by edges that are old or atomic -/
theorem forest_set_old {c : Cells} {k : Str} {es : List Edge} (hF : Forest c) (hk : k ∈ ckeys c)
    (hes : ∀ e ∈ es, (∃ es0, (k, es0) ∈ c ∧ e ∈ es0) ∨
      (∀ w, e.tgt = .node w → (ckeys c).idxOf k < (ckeys c).idxOf w ∧ w ∈ ckeys c)) :
    Forest (AList.set c k es) := by
  have hkeys := keys_set_of_mem es hk
  apply forest_of_members hF (by rw [hkeys]; exact List.prefix_refl _)
  intro p hp
  rcases mem_set hp with h | h
  · exact Or.inl h
  · right
    subst h
    intro e he w hw
    rw [hkeys]
    rcases hes e he with ⟨es0, h1, h2⟩ | h
    · exact hF _ h1 e h2 w hw
    · exact h w hw

/-! ### the state operations preserve `Good` -/

theorem cells_noteSite (st : St) (var : Str) (t : Atom) : (st.noteSite var t).cells = st.cells := by
  unfold St.noteSite
  split
  · split <;> rfl
  · rfl

theorem good_addBack_atom {st : St} {var : Str} {e : Edge} (hg : Good st) (hv : Own st var)
    (he : ∀ w, e.tgt ≠ .node w) : Good (st.addBack var e) ∧ Ext st (st.addBack var e) := by
  have hk : var ∈ ckeys st.cells := (hg.own var).2 hv
  have hkeys : ckeys (st.addBack var e).cells = ckeys st.cells := keys_set_of_mem _ hk
  refine ⟨⟨?_, hg.site, ?_⟩, by unfold Ext; rw [hkeys]; exact List.prefix_refl _⟩
  · intro k; rw [hkeys]; exact hg.own k
  · apply forest_set_old hg.forest hk
    intro e' he'
    simp only [List.mem_append, List.mem_singleton] at he'
    rcases he' with h | h
    · exact Or.inl (cell_mem h)
    · subst h; right; intro w hw; exact absurd hw (he w)

theorem good_addFront_atom {st : St} {var : Str} {e : Edge} (hg : Good st) (hv : Own st var)
    (he : ∀ w, e.tgt ≠ .node w) : Good (st.addFront var e) ∧ Ext st (st.addFront var e) := by
  have hk : var ∈ ckeys st.cells := (hg.own var).2 hv
  have hkeys : ckeys (st.addFront var e).cells = ckeys st.cells := keys_set_of_mem _ hk
  refine ⟨⟨?_, hg.site, ?_⟩, by unfold Ext; rw [hkeys]; exact List.prefix_refl _⟩
  · intro k; rw [hkeys]; exact hg.own k
  · apply forest_set_old hg.forest hk
    intro e' he'
    simp only [List.mem_cons] at he'
    rcases he' with h | h
    · subst h; right; intro w hw; exact absurd hw (he w)
    · exact Or.inl (cell_mem h)

theorem good_addBack_node {st : St} {var v : Str} {role : Str} {epis : List Epi} (hg : Good st) (hv : Own st var)
    (hlt : (ckeys st.cells).idxOf var < (ckeys st.cells).idxOf v) (hvk : v ∈ ckeys st.cells) :
    Good (st.addBack var ⟨role, .node v, epis⟩) ∧ Ext st (st.addBack var ⟨role, .node v, epis⟩) := by
  have hk : var ∈ ckeys st.cells := (hg.own var).2 hv
  have hkeys : ckeys (st.addBack var ⟨role, .node v, epis⟩).cells = ckeys st.cells := keys_set_of_mem _ hk
  refine ⟨⟨?_, hg.site, ?_⟩, by unfold Ext; rw [hkeys]; exact List.prefix_refl _⟩
  · intro k; rw [hkeys]; exact hg.own k
  · apply forest_set_old hg.forest hk
    intro e' he'
    simp only [List.mem_append, List.mem_singleton] at he'
    rcases he' with h | h
    · exact Or.inl (cell_mem h)
    · subst h; right; intro w hw
      simp only [ETgt.node.injEq] at hw; subst hw
      exact ⟨hlt, hvk⟩

theorem own_noteSite {st : St} {var : Str} {t : Atom} {k : Str} :
    Own (st.noteSite var t) k ↔ Own st k := by
  unfold St.noteSite Own
  split
  · rename_i v
    split
    · rename_i hu
      by_cases h : k = v
      · subst h; simp [get?_set_same, hu]
      · simp [get?_set_other _ _ _ _ h]
    · rfl
  · rfl

theorem good_noteSite {st : St} {var : Str} {t : Atom} (hg : Good st) (hv : Own st var) :
    Good (st.noteSite var t) ∧ Ext st (st.noteSite var t) := by
  refine ⟨⟨?_, ?_, ?_⟩, by unfold Ext; rw [cells_noteSite]; exact List.prefix_refl _⟩
  · intro k; rw [cells_noteSite, own_noteSite]; exact hg.own k
  · intro v u h
    rw [own_noteSite]
    unfold St.noteSite at h
    split at h
    · rename_i w
      split at h
      · by_cases e : v = w
        · subst e; simp [get?_set_same] at h; subst h; exact hv
        · simp only [get?_set_other _ _ _ _ e] at h; exact hg.site v u h
      · exact hg.site v u h
    · exact hg.site v u h
  · rw [cells_noteSite]; exact hg.forest

theorem good_newCell {st : St} {v : Str} (hg : Good st) (hv : ¬ Own st v) :
    Good (st.newCell v) ∧ ckeys (st.newCell v).cells = ckeys st.cells ++ [v] ∧ Own (st.newCell v) v := by
  have hk : v ∉ ckeys st.cells := fun h => hv ((hg.own v).1 h)
  have hkeys : ckeys (st.newCell v).cells = ckeys st.cells ++ [v] := keys_set_of_not_mem _ hk
  have hown : ∀ k, Own (st.newCell v) k ↔ (k = v ∨ Own st k) := by
    intro k
    unfold Own St.newCell
    by_cases e : k = v
    · subst e; simp [get?_set_same]
    · simp [get?_set_other _ _ _ _ e, e]
  refine ⟨⟨?_, ?_, ?_⟩, hkeys, (hown v).2 (Or.inl rfl)⟩
  · intro k; rw [hkeys, hown, List.mem_append, List.mem_singleton, hg.own k]
    constructor <;> (intro h; rcases h with h | h <;> simp [h])
  · intro w u h
    rw [hown]
    by_cases e : w = v
    · subst e; simp [St.newCell, get?_set_same] at h
    · simp only [St.newCell, get?_set_other _ _ _ _ e] at h; exact Or.inr (hg.site w u h)
  · apply forest_of_members hg.forest (by rw [hkeys]; exact List.prefix_append _ _)
    intro p hp
    rcases mem_set hp with h | h
    · exact Or.inl h
    · right; subst h; intro e he; simp at he


theorem own_mono {st st' : St} (hg : Good st) (hg' : Good st') (he : Ext st st') {k : Str} (h : Own st k) :
    Own st' k := (hg'.own k).1 (List.IsPrefix.mem ((hg.own k).2 h) he)

theorem establishIn_mem {v : Str} : ∀ {es : List Edge} {e : Edge}, e ∈ establishIn v es → e ∈ es ∨ e.tgt = .node v := by
  intro es
  induction es with
  | nil => intro e h; simp [establishIn] at h
  | cons a r ih =>
    intro e h
    simp only [establishIn] at h
    split at h
    · simp only [List.mem_cons] at h
      rcases h with h | h
      · right; subst h; rfl
      · left; exact List.mem_cons_of_mem _ h
    · simp only [List.mem_cons] at h
      rcases h with h | h
      · left; subst h; exact List.mem_cons_self
      · rcases ih h with h | h
        · left; exact List.mem_cons_of_mem _ h
        · right; exact h

theorem good_getOrEstablish {st : St} {v : Str} (hg : Good st) :
    Good (getOrEstablish st v).2 ∧ Ext st (getOrEstablish st v).2 ∧
      ((getOrEstablish st v).1 = true → Own (getOrEstablish st v).2 v) := by
  unfold getOrEstablish
  split
  · rename_i h; exact ⟨hg, Ext.refl _, fun _ => h⟩
  · rename_i u hs
    simp only []
    have hu : Own st u := hg.site v u hs
    have huk : u ∈ ckeys st.cells := (hg.own u).2 hu
    have hvn : ¬ Own st v := by unfold Own; rw [hs]; simp
    have hvk : v ∉ ckeys st.cells := fun h => hvn ((hg.own v).1 h)
    have hk1 : ckeys (AList.set st.cells u (establishIn v (st.cell u))) = ckeys st.cells := keys_set_of_mem _ huk
    have hkeys : ckeys (AList.set (AList.set st.cells u (establishIn v (st.cell u))) v []) = ckeys st.cells ++ [v] := by
      rw [keys_set_of_not_mem _ (by rw [hk1]; exact hvk), hk1]
    have hown : ∀ k, Own ⟨AList.set (AList.set st.cells u (establishIn v (st.cell u))) v [], AList.set st.nm v NM.own⟩ k
        ↔ (k = v ∨ Own st k) := by
      intro k
      unfold Own
      by_cases e : k = v
      · subst e; simp [get?_set_same]
      · simp [get?_set_other _ _ _ _ e, e]
    refine ⟨⟨?_, ?_, ?_⟩, ?_, fun _ => (hown v).2 (Or.inl rfl)⟩
    · intro k
      show k ∈ ckeys (AList.set (AList.set st.cells u (establishIn v (st.cell u))) v []) ↔ _
      rw [hkeys, hown, List.mem_append, List.mem_singleton, hg.own k]
      constructor <;> (intro h; rcases h with h | h <;> simp [h])
    · intro w u' h
      rw [hown]
      by_cases e : w = v
      · subst e; simp [get?_set_same] at h
      · simp only [get?_set_other _ _ _ _ e] at h; exact Or.inr (hg.site w u' h)
    · show Forest (AList.set (AList.set st.cells u (establishIn v (st.cell u))) v [])
      have hpre : ckeys st.cells <+: ckeys st.cells ++ [v] := List.prefix_append _ _
      apply forest_of_members hg.forest (by rw [hkeys]; exact hpre)
      intro p hp
      rcases mem_set hp with h | h
      · rcases mem_set h with h | h
        · exact Or.inl h
        · right; subst h
          intro e he w hw
          rw [hkeys]
          rcases establishIn_mem he with h | h
          · obtain ⟨es0, h1, h2⟩ := cell_mem h
            obtain ⟨h3, h4⟩ := hg.forest _ h1 e h2 w hw
            rw [idxOf_prefix hpre huk, idxOf_prefix hpre h4]
            exact ⟨h3, List.IsPrefix.mem h4 hpre⟩
          · rw [h] at hw; simp only [ETgt.node.injEq] at hw; subst hw
            rw [idxOf_prefix hpre huk]
            have : (ckeys st.cells ++ [v]).idxOf v = (ckeys st.cells).length := by
              simp [List.idxOf_append, hvk]
            rw [this]
            exact ⟨List.idxOf_lt_length_of_mem huk, by simp⟩
      · right; subst h; intro e he; simp at he
    · show ckeys st.cells <+: ckeys (AList.set (AList.set st.cells u (establishIn v (st.cell u))) v [])
      rw [hkeys]; exact List.prefix_append _ _
  · exact ⟨hg, Ext.refl _, fun h => by simp at h⟩

theorem good_findNext : ∀ data rev st, Good st →
    Good (findNext data rev st).2.2.2 ∧ Ext st (findNext data rev st).2.2.2 ∧
      ∀ v, (findNext data rev st).2.1 = some v → Own (findNext data rev st).2.2.2 v := by
  intro data rev st
  fun_induction findNext data rev st <;> intro hg
  · exact ⟨hg, Ext.refl _, fun v h => by simp at h⟩
  · exact ⟨hg, Ext.refl _, fun v h => by simp at h⟩
  · rename_i ih; exact ih hg
  · rename_i tr push epis rest rev st d trySrc h1
    have hT : Good trySrc.2 ∧ Ext st trySrc.2 ∧ (trySrc.1 = true → Own trySrc.2 tr.src) := by
      simp only [trySrc]; split
      · exact good_getOrEstablish hg
      · exact ⟨hg, Ext.refl _, fun h => by simp at h⟩
    exact ⟨hT.1, hT.2.1, fun v h => by simp at h; subst h; exact hT.2.2 h1⟩
  · rename_i tr push epis rest rev st d trySrc h1 tv htv tryTgt h2
    have hT : Good trySrc.2 ∧ Ext st trySrc.2 ∧ (trySrc.1 = true → Own trySrc.2 tr.src) := by
      simp only [trySrc]; split
      · exact good_getOrEstablish hg
      · exact ⟨hg, Ext.refl _, fun h => by simp at h⟩
    have hU : Good tryTgt.2 ∧ Ext trySrc.2 tryTgt.2 ∧ (tryTgt.1 = true → Own tryTgt.2 tv) := by
      simp only [tryTgt]; split
      · exact good_getOrEstablish hT.1
      · exact ⟨hT.1, Ext.refl _, fun h => by simp at h⟩
    exact ⟨hU.1, hT.2.1.trans hU.2.1, fun v h => by simp at h; subst h; exact hU.2.2 h2⟩
  · rename_i tr push epis rest rev st d trySrc h1 tv htv tryTgt h2 ih
    have hT : Good trySrc.2 ∧ Ext st trySrc.2 := by
      simp only [trySrc]; split
      · exact ⟨(good_getOrEstablish hg).1, (good_getOrEstablish hg).2.1⟩
      · exact ⟨hg, Ext.refl _⟩
    have hU : Good tryTgt.2 ∧ Ext trySrc.2 tryTgt.2 := by
      simp only [tryTgt]; split
      · exact ⟨(good_getOrEstablish hT.1).1, (good_getOrEstablish hT.1).2.1⟩
      · exact ⟨hT.1, Ext.refl _⟩
    obtain ⟨a, b, c⟩ := ih hU.1
    exact ⟨a, (hT.2.trans hU.2).trans b, c⟩
  · rename_i tr push epis rest rev st d trySrc h1 hnt ih
    have hT : Good trySrc.2 ∧ Ext st trySrc.2 := by
      simp only [trySrc]; split
      · exact ⟨(good_getOrEstablish hg).1, (good_getOrEstablish hg).2.1⟩
      · exact ⟨hg, Ext.refl _⟩
    obtain ⟨a, b, c⟩ := ih hT.1
    exact ⟨a, hT.2.trans b, c⟩


theorem pushVar_some {st : St} {push : Bool} {target : Atom} {v : Str}
    (h : pushVar st push target = some v) : target = .str v ∧ ¬ Own st v := by
  unfold pushVar at h
  split at h
  · rename_i hb
    cases target with
    | str w =>
      simp only [tgtStr?, Option.some.injEq] at h
      subst h
      refine ⟨rfl, ?_⟩
      simp only [Bool.and_eq_true, Bool.not_eq_true'] at hb
      intro hown
      simp [St.established, Own] at hb hown
      exact hb.2 hown
    | none => simp [tgtStr?] at h
    | num _ => simp [tgtStr?] at h
  · simp at h

theorem good_cn (m : Model) : ∀ f var data st s, Good st → Own st var →
    Good (configureNode m f var data st s).2.1 ∧ Ext st (configureNode m f var data st s).2.1 := by
  intro f
  induction f with
  | zero => intro var data st s hg _; exact ⟨hg, Ext.refl _⟩
  | succ f ih =>
    intro var data st s hg hv
    cases data with
    | nil => exact ⟨hg, Ext.refl _⟩
    | cons d data =>
      cases d with
      | pop => exact ⟨hg, Ext.refl _⟩
      | t tr push epis =>
        simp only [configureNode]
        split
        · exact ⟨hg, Ext.refl _⟩
        · rename_i role target push' s' hor
          split
          · split
            · exact ih _ _ _ _ hg hv
            · obtain ⟨g1, e1⟩ := good_addFront_atom (e := ⟨['/'], .atom target, epis⟩) hg hv (by intro w; simp)
              obtain ⟨g2, e2⟩ := ih var data _ s' g1 (own_mono hg g1 e1 hv)
              exact ⟨g2, e1.trans e2⟩
          · split
            · rename_i v hp
              obtain ⟨_, hnv⟩ := pushVar_some hp
              obtain ⟨g1, k1, o1⟩ := good_newCell hg hnv
              have e1 : Ext st (st.newCell v) := by unfold Ext; rw [k1]; exact List.prefix_append _ _
              obtain ⟨g2, e2⟩ := ih v data _ false g1 o1
              have hvk : var ∈ ckeys st.cells := (hg.own var).2 hv
              have hvn : v ∉ ckeys st.cells := fun h => hnv ((hg.own v).1 h)
              have hv2 : Own (configureNode m f v data (st.newCell v) false).2.1 var :=
                own_mono g1 g2 e2 (own_mono hg g1 e1 hv)
              have hidx : (ckeys (st.newCell v).cells).idxOf var < (ckeys (st.newCell v).cells).idxOf v := by
                rw [k1]
                simp only [List.idxOf_append, hvk, hvn, if_true, if_false]
                have := List.idxOf_lt_length_of_mem hvk
                omega
              have hm1 : var ∈ ckeys (st.newCell v).cells := List.IsPrefix.mem hvk e1
              have hm2 : v ∈ ckeys (st.newCell v).cells := by rw [k1]; simp
              have hidx2 : (ckeys (configureNode m f v data (st.newCell v) false).2.1.cells).idxOf var <
                  (ckeys (configureNode m f v data (st.newCell v) false).2.1.cells).idxOf v := by
                rw [idxOf_prefix e2 hm1, idxOf_prefix e2 hm2]; exact hidx
              obtain ⟨g3, e3⟩ := good_addBack_node (role := role) (epis := epis) g2 hv2 hidx2 (List.IsPrefix.mem hm2 e2)
              obtain ⟨g4, e4⟩ := ih var _ _ (s' && (configureNode m f v data (st.newCell v) false).2.2) g3
                (own_mono g2 g3 e3 hv2)
              exact ⟨g4, ((e1.trans e2).trans e3).trans e4⟩
            · obtain ⟨g1, e1⟩ := good_noteSite (t := target) hg hv
              have hv1 := own_mono hg g1 e1 hv
              obtain ⟨g2, e2⟩ := good_addBack_atom (e := ⟨role, .atom target, epis⟩) g1 hv1 (by intro w; simp)
              obtain ⟨g3, e3⟩ := ih var data _ s' g2 (own_mono g1 g2 e2 hv1)
              exact ⟨g3, (e1.trans e2).trans e3⟩

/-! ### (c) `buildNode` succeeds on a forest -/

theorem build_ok (c : Cells) (hF : Forest c) : ∀ f,
    (∀ v, 2 * ((ckeys c).length - (ckeys c).idxOf v) + 1 ≤ f → ∃ n, buildNode c f v = .ok n) ∧
    (∀ es, (∀ e ∈ es, ∀ w, e.tgt = .node w → 2 * ((ckeys c).length - (ckeys c).idxOf w) + 2 ≤ f) →
      ∃ bs, buildBranches c f es = .ok bs) := by
  intro f
  induction f using Nat.strongRecOn with
  | _ f ih =>
    have hB : ∀ es, (∀ e ∈ es, ∀ w, e.tgt = .node w → 2 * ((ckeys c).length - (ckeys c).idxOf w) + 2 ≤ f) →
        ∃ bs, buildBranches c f es = .ok bs := by
      intro es
      induction es with
      | nil => intro _; exact ⟨.nil, by simp [buildBranches]⟩
      | cons e es ihes =>
        intro h
        obtain ⟨rest, hrest⟩ := ihes (fun e' he' => h e' (List.mem_cons_of_mem _ he'))
        cases htg : e.tgt with
        | atom a =>
          simp only [buildBranches, hrest, htg]
          exact ⟨_, rfl⟩
        | node w =>
          have hw := h e List.mem_cons_self w htg
          cases f with
          | zero => omega
          | succ f' =>
            obtain ⟨n, hn⟩ := (ih f' (by omega)).1 w (by omega)
            simp only [buildBranches, hrest, htg, hn]
            exact ⟨_, rfl⟩
    refine ⟨?_, hB⟩
    intro v hv
    cases f with
    | zero => omega
    | succ f' =>
      simp only [buildNode]
      have : ∃ bs, buildBranches c f' ((AList.get? c v).getD []) = .ok bs := by
        apply (ih f' (by omega)).2
        intro e he w hw
        cases hg : AList.get? c v with
        | none => simp [hg] at he
        | some es =>
          simp [hg] at he
          obtain ⟨h1, h2⟩ := hF _ (mem_of_get? hg) e he w hw
          have := List.idxOf_lt_length_of_mem h2
          simp only [] at h1
          omega
      obtain ⟨bs, hbs⟩ := this
      exact ⟨_, by rw [hbs]; rfl⟩

theorem buildNode_ok {c : Cells} (hF : Forest c) (v : Str) : ∃ n, buildNode c (2 * c.length + 2) v = .ok n := by
  apply (build_ok c hF _).1
  have : (ckeys c).length = c.length := by simp [ckeys, AList.keys]
  omega

end Cfg

/-
  Penman.Proofs.Configure10 — shape of the cell store: keys are distinct, every
  cell except the roots has exactly one incoming node edge (`Shape.deg`), and a
  variable noted as `site u` has an establishable edge in `u`'s cell (J1).
-/
import Penman.Proofs.Configure9
namespace Penman
namespace Cfg

/-! ### generic "sum over cells" under `AList.set` -/

section Flat
variable {β : Type}

def flat (F : Str → List Edge → List β) (c : Cells) : List β := c.flatMap fun p => F p.1 p.2

theorem flat_cons (F : Str → List Edge → List β) (k : Str) (es : List Edge) (r : Cells) :
    flat F ((k, es) :: r) = F k es ++ flat F r := by simp [flat]

theorem flat_set (F : Str → List Edge → List β) (hF : ∀ v, F v [] = []) (c : Cells) (v : Str) (es : List Edge) :
    (flat F (AList.set c v es) ++ F v ((AList.get? c v).getD [])).Perm (F v es ++ flat F c) := by
  induction c with
  | nil => simp [AList.set, AList.get?, flat, hF]
  | cons p r ih =>
    obtain ⟨k, x⟩ := p
    by_cases h : k = v
    · subst h
      simp only [AList.set, if_true, flat_cons, AList.get?, List.find?_cons_of_pos, decide_true, Option.map_some,
        Option.getD_some]
      rw [List.append_assoc]
      exact List.Perm.append_left _ List.perm_append_comm
    · have hg : AList.get? ((k, x) :: r) v = AList.get? r v := by simp [AList.get?, List.find?, h]
      rw [hg]
      simp only [AList.set, h, if_false, flat_cons, List.append_assoc]
      refine (List.Perm.append_left _ ih).trans ?_
      rw [← List.append_assoc, ← List.append_assoc]
      exact List.Perm.append_right _ List.perm_append_comm

theorem flat_set_same (F : Str → List Edge → List β) (hF : ∀ v, F v [] = []) (c : Cells) (v : Str) (es : List Edge)
    (h : F v es = F v ((AList.get? c v).getD [])) : (flat F (AList.set c v es)).Perm (flat F c) := by
  have := flat_set F hF c v es
  rw [h] at this
  exact (List.perm_append_right_iff _).1 (this.trans List.perm_append_comm)

theorem flat_set_snoc (F : Str → List Edge → List β) (hF : ∀ v, F v [] = [])
    (hadd : ∀ v a b, F v (a ++ b) = F v a ++ F v b) (c : Cells) (v : Str) (e : Edge) :
    (flat F (AList.set c v ((AList.get? c v).getD [] ++ [e]))).Perm (F v [e] ++ flat F c) := by
  have := flat_set F hF c v ((AList.get? c v).getD [] ++ [e])
  rw [hadd] at this
  have h2 : (F v ((AList.get? c v).getD []) ++ F v [e] ++ flat F c).Perm
      ((F v [e] ++ flat F c) ++ F v ((AList.get? c v).getD [])) := by
    rw [List.append_assoc]; exact List.perm_append_comm
  exact (List.perm_append_right_iff _).1 (this.trans h2)

theorem flat_set_cons (F : Str → List Edge → List β) (hF : ∀ v, F v [] = [])
    (hadd : ∀ v a b, F v (a ++ b) = F v a ++ F v b) (c : Cells) (v : Str) (e : Edge) :
    (flat F (AList.set c v (e :: (AList.get? c v).getD []))).Perm (F v [e] ++ flat F c) := by
  have := flat_set F hF c v ([e] ++ (AList.get? c v).getD [])
  rw [hadd] at this
  have h2 : (F v [e] ++ F v ((AList.get? c v).getD []) ++ flat F c).Perm
      ((F v [e] ++ flat F c) ++ F v ((AList.get? c v).getD [])) := by
    rw [List.append_assoc, List.append_assoc]
    exact List.Perm.append_left _ List.perm_append_comm
  exact (List.perm_append_right_iff _).1 (this.trans h2)

end Flat

/-! ### node-edge targets -/

def nodeTgts (es : List Edge) : List Str :=
  es.filterMap fun e => match e.tgt with | .node w => some w | .atom _ => none

def allNodeTgts (c : Cells) : List Str := flat (fun _ es => nodeTgts es) c

theorem nodeTgts_append (a b : List Edge) : nodeTgts (a ++ b) = nodeTgts a ++ nodeTgts b := by
  simp [nodeTgts]

theorem nodeTgts_atom {e : Edge} (h : ∀ w, e.tgt ≠ .node w) : nodeTgts [e] = [] := by
  cases ht : e.tgt with
  | atom a => simp [nodeTgts, ht]
  | node w => exact absurd ht (h w)

theorem nodeTgts_establishIn (v : Str) : ∀ es : List Edge,
    (∃ e ∈ es, e.tgt = .atom (.str v) ∧ e.role ≠ ['/']) →
    (nodeTgts (establishIn v es)).Perm (v :: nodeTgts es) := by
  intro es
  induction es with
  | nil => rintro ⟨e, he, _⟩; simp at he
  | cons a r ih =>
    intro h
    simp only [establishIn]
    split
    · rename_i hc
      have e1 : nodeTgts ({ a with tgt := .node v } :: r) = v :: nodeTgts r := by simp [nodeTgts]
      have e2 : nodeTgts (a :: r) = nodeTgts r := by simp [nodeTgts, hc.1]
      rw [e1, e2]
    · rename_i hc
      have hr : ∃ e ∈ r, e.tgt = .atom (.str v) ∧ e.role ≠ ['/'] := by
        obtain ⟨e, he, h1, h2⟩ := h
        simp only [List.mem_cons] at he
        rcases he with rfl | he
        · exact absurd ⟨h1, h2⟩ hc
        · exact ⟨e, he, h1, h2⟩
      have := ih hr
      cases hat : a.tgt with
      | atom x =>
        have e1 : nodeTgts (a :: establishIn v r) = nodeTgts (establishIn v r) := by simp [nodeTgts, hat]
        have e2 : nodeTgts (a :: r) = nodeTgts r := by simp [nodeTgts, hat]
        rw [e1, e2]; exact this
      | node w =>
        have e1 : nodeTgts (a :: establishIn v r) = w :: nodeTgts (establishIn v r) := by simp [nodeTgts, hat]
        have e2 : nodeTgts (a :: r) = w :: nodeTgts r := by simp [nodeTgts, hat]
        rw [e1, e2]
        exact ((List.perm_cons w).2 this).trans (List.Perm.swap _ _ _)

theorem establishIn_keeps {v : Str} : ∀ {es : List Edge} {e : Edge}, e ∈ es → e.tgt ≠ .atom (.str v) →
    e ∈ establishIn v es := by
  intro es
  induction es with
  | nil => intro e h; simp at h
  | cons a r ih =>
    intro e he hne
    simp only [establishIn]
    simp only [List.mem_cons] at he
    split
    · rename_i hc
      rcases he with rfl | he
      · exact absurd hc.1 hne
      · exact List.mem_cons_of_mem _ he
    · rcases he with rfl | he
      · exact List.mem_cons_self
      · exact List.mem_cons_of_mem _ (ih he hne)

/-! ### the shape invariant -/

/-- `R` lists the cells that (still) have no incoming node edge: the top, and the
    pushed variables whose edge is added after their subtree is complete -/
structure Deg (R : List Str) (st : St) : Prop where
  nodup : (ckeys st.cells).Nodup
  deg : (R ++ allNodeTgts st.cells).Perm (ckeys st.cells)

/-- J1: a variable noted as `site u` has an establishable edge in `u`'s cell -/
def J1 (st : St) : Prop :=
  ∀ v u, AList.get? st.nm v = some (NM.site u) →
    ∃ e ∈ st.cell u, e.tgt = .atom (.str v) ∧ e.role ≠ ['/']

theorem cell_addBack (st : St) (var : Str) (e : Edge) (u : Str) :
    (st.addBack var e).cell u = if u = var then st.cell u ++ [e] else st.cell u := by
  unfold St.addBack St.cell
  by_cases h : u = var
  · subst h; simp [get?_set_same]
  · simp [get?_set_other _ _ _ _ h, h]

theorem cell_addFront (st : St) (var : Str) (e : Edge) (u : Str) :
    (st.addFront var e).cell u = if u = var then e :: st.cell u else st.cell u := by
  unfold St.addFront St.cell
  by_cases h : u = var
  · subst h; simp [get?_set_same]
  · simp [get?_set_other _ _ _ _ h, h]

theorem mem_cell_addBack {st : St} {var : Str} {e x : Edge} {u : Str} (h : x ∈ st.cell u) :
    x ∈ (st.addBack var e).cell u := by
  rw [cell_addBack]; split
  · exact List.mem_append_left _ h
  · exact h

theorem mem_cell_addFront {st : St} {var : Str} {e x : Edge} {u : Str} (h : x ∈ st.cell u) :
    x ∈ (st.addFront var e).cell u := by
  rw [cell_addFront]; split
  · exact List.mem_cons_of_mem _ h
  · exact h

theorem allNodeTgts_addBack (st : St) (var : Str) (e : Edge) :
    (allNodeTgts (st.addBack var e).cells).Perm (nodeTgts [e] ++ allNodeTgts st.cells) :=
  flat_set_snoc (fun _ es => nodeTgts es) (fun _ => rfl) (fun _ a b => nodeTgts_append a b) st.cells var e

theorem allNodeTgts_addFront (st : St) (var : Str) (e : Edge) :
    (allNodeTgts (st.addFront var e).cells).Perm (nodeTgts [e] ++ allNodeTgts st.cells) :=
  flat_set_cons (fun _ es => nodeTgts es) (fun _ => rfl) (fun _ a b => nodeTgts_append a b) st.cells var e

theorem deg_addBack_atom {R : List Str} {st : St} {var : Str} {e : Edge} (hg : Good st) (hv : Own st var)
    (he : ∀ w, e.tgt ≠ .node w) (hs : Deg R st) : Deg R (st.addBack var e) := by
  have hk : var ∈ ckeys st.cells := (hg.own var).2 hv
  have hkeys : ckeys (st.addBack var e).cells = ckeys st.cells := keys_set_of_mem _ hk
  refine ⟨by rw [hkeys]; exact hs.nodup, ?_⟩
  rw [hkeys]
  refine (List.Perm.append_left _ ?_).trans hs.deg
  have := allNodeTgts_addBack st var e
  rwa [nodeTgts_atom he, List.nil_append] at this

theorem deg_addFront_atom {R : List Str} {st : St} {var : Str} {e : Edge} (hg : Good st) (hv : Own st var)
    (he : ∀ w, e.tgt ≠ .node w) (hs : Deg R st) : Deg R (st.addFront var e) := by
  have hk : var ∈ ckeys st.cells := (hg.own var).2 hv
  have hkeys : ckeys (st.addFront var e).cells = ckeys st.cells := keys_set_of_mem _ hk
  refine ⟨by rw [hkeys]; exact hs.nodup, ?_⟩
  rw [hkeys]
  refine (List.Perm.append_left _ ?_).trans hs.deg
  have := allNodeTgts_addFront st var e
  rwa [nodeTgts_atom he, List.nil_append] at this

/-- closing a pushed node: its edge is added, it leaves the root list -/
theorem deg_addBack_node {R : List Str} {st : St} {var v role : Str} {epis : List Epi} (hg : Good st)
    (hv : Own st var) (hs : Deg (v :: R) st) : Deg R (st.addBack var ⟨role, .node v, epis⟩) := by
  have hk : var ∈ ckeys st.cells := (hg.own var).2 hv
  have hkeys : ckeys (st.addBack var ⟨role, .node v, epis⟩).cells = ckeys st.cells := keys_set_of_mem _ hk
  refine ⟨by rw [hkeys]; exact hs.nodup, ?_⟩
  rw [hkeys]
  have h1 : (allNodeTgts (st.addBack var ⟨role, .node v, epis⟩).cells).Perm (v :: allNodeTgts st.cells) :=
    allNodeTgts_addBack st var ⟨role, .node v, epis⟩
  refine (List.Perm.append_left _ h1).trans ?_
  refine List.perm_middle.trans ?_
  simpa using hs.deg

/-- opening a pushed node -/
theorem deg_newCell {R : List Str} {st : St} {v : Str} (hg : Good st) (hv : ¬ Own st v) (hs : Deg R st) :
    Deg (v :: R) (st.newCell v) := by
  have hk : v ∉ ckeys st.cells := fun h => hv ((hg.own v).1 h)
  have hkeys : ckeys (st.newCell v).cells = ckeys st.cells ++ [v] := keys_set_of_not_mem _ hk
  have hN : (allNodeTgts (st.newCell v).cells).Perm (allNodeTgts st.cells) := by
    apply flat_set_same _ (fun _ => rfl)
    rw [get?_none_of_not_mem hk]; rfl
  refine ⟨?_, ?_⟩
  · rw [hkeys, List.nodup_append]
    exact ⟨hs.nodup, by simp, fun a ha b hb => by simp at hb; subst hb; exact fun e => hk (e ▸ ha)⟩
  · rw [hkeys]
    refine (List.Perm.append_left _ hN).trans ?_
    rw [List.cons_append]
    exact ((List.perm_cons v).2 hs.deg).trans (List.perm_append_comm (l₁ := [v]))

theorem deg_noteSite {R : List Str} {st : St} {var : Str} {t : Atom} (hs : Deg R st) : Deg R (st.noteSite var t) := by
  constructor
  · rw [cells_noteSite]; exact hs.nodup
  · rw [cells_noteSite]; exact hs.deg

theorem j1_addBack {st : St} {var : Str} {e : Edge} (h : J1 st) : J1 (st.addBack var e) := by
  intro v u hv
  obtain ⟨x, hx, h1, h2⟩ := h v u hv
  exact ⟨x, mem_cell_addBack hx, h1, h2⟩

theorem j1_addFront {st : St} {var : Str} {e : Edge} (h : J1 st) : J1 (st.addFront var e) := by
  intro v u hv
  obtain ⟨x, hx, h1, h2⟩ := h v u hv
  exact ⟨x, mem_cell_addFront hx, h1, h2⟩

theorem j1_newCell {st : St} {v : Str} (hg : Good st) (hv : ¬ Own st v) (h : J1 st) : J1 (st.newCell v) := by
  intro w u hw
  have hwv : w ≠ v := by rintro rfl; simp [St.newCell, get?_set_same] at hw
  simp only [St.newCell, get?_set_other _ _ _ _ hwv] at hw
  obtain ⟨x, hx, h1, h2⟩ := h w u hw
  have huv : u ≠ v := by
    rintro rfl; exact hv (hg.site w u hw)
  refine ⟨x, ?_, h1, h2⟩
  simpa [St.cell, St.newCell, get?_set_other _ _ _ _ huv] using hx

/-- noting a site together with the atom edge that justifies it -/
theorem j1_note {st : St} {var role : Str} {target : Atom} {epis : List Epi} (hr : role ≠ ['/']) (h : J1 st) :
    J1 ((st.noteSite var target).addBack var ⟨role, .atom target, epis⟩) := by
  intro v u hv
  have hnm : ((st.noteSite var target).addBack var ⟨role, .atom target, epis⟩).nm = (st.noteSite var target).nm := rfl
  rw [hnm] at hv
  have hcell : ∀ x u, x ∈ st.cell u → x ∈ ((st.noteSite var target).addBack var ⟨role, .atom target, epis⟩).cell u := by
    intro x u hx
    apply mem_cell_addBack
    simpa [St.cell, cells_noteSite] using hx
  have hold : AList.get? st.nm v = some (NM.site u) → ∃ e ∈ ((st.noteSite var target).addBack var
      ⟨role, .atom target, epis⟩).cell u, e.tgt = .atom (.str v) ∧ e.role ≠ ['/'] := by
    intro h0
    obtain ⟨x, hx, h1, h2⟩ := h v u h0
    exact ⟨x, hcell x u hx, h1, h2⟩
  unfold St.noteSite at hv
  cases target with
  | none => exact hold hv
  | num _ => exact hold hv
  | str w =>
    simp only [] at hv
    split at hv
    · by_cases e : v = w
      · subst e
        simp only [get?_set_same, Option.some.injEq, NM.site.injEq] at hv
        subst hv
        refine ⟨⟨role, .atom (.str v), epis⟩, ?_, rfl, hr⟩
        rw [cell_addBack]; simp
      · simp only [get?_set_other _ _ _ _ e] at hv; exact hold hv
    · exact hold hv

end Cfg
end Penman

/-
  # C12 (last clause) — the result of every transformation "encodes without error and DECODES TO ITSELF"

  Property C12: "Every transformation returns a well-formed graph that serialises faithfully: each
  transformation's result encodes without error and decodes to itself."  `Props/C12.lean` proves
  everything up to "encodes without error" (`C12_encodes`); this file proves "decodes to itself" by
  composing the transformations with the text-level round trip `C03Text.C03_text`.

  Clause ↦ theorem
  * the result of EACH transformation satisfies the hypotheses of `C03_text` again
        ↦ `C12dec_reifyEdges`, `C12dec_dereifyEdges`, `C12dec_reifyAttributes`,
          `C12dec_indicateBranches` (one step: `C12dec_step`), `hyps_c03text` (what `Hyps` gives);
  * "… encodes without error and decodes to itself" (top, variables, triples as a multiset up to
    one de-inversion and the written form of numbers, provenance, metadata), for every
    indentation and compactness                       ↦ `C12_decodes` (one step, any of the four),
          `C12_decodes_reifyEdges` / `_dereifyEdges` / `_reifyAttributes` / `_indicateBranches`;
  * "… and every composition of them"                 ↦ `C12_decodes_program` (side conditions
          checked along the way: `SideAlongDec`), `C12dec_program`.

  Hypotheses (`Hyps cfg isSpace m g`; all decidable except connectivity)
  * `WfGraph m g`, `GraphTextOK cfg isSpace m g`, `Connected g` : those of `C03_text` / C12.
  * `EpiAll g` : `NoAlign`, `PushVars`, `PushSrcOK` asked of EVERY entry of the marker table, not only of
    the entries whose key is a triple (a transformation may create the triple a stale entry belongs
    to: `exStale`).  For a marker table that is a dictionary keyed by triples of the graph — every
    decoded graph — it IS `NoAlign ∧ PushVars ∧ PushSrcOK` (`epiAll_of_keys`).
  * tables: `ModelWf m`, `m.noop = false`, `FmtCfgWf cfg` (C03); `ReifWf m`, `TopRoleOk m` (C12);
    `TableOK cfg m` (new, decidable): role / source role / target role of every reification and the
    top role are colon-prefixed ROLE texts without `~`, inversion-canonical, with a ROLE text as
    inversion, never inverting to `:instance`; every reification concept is a non-empty SYMBOL / STRING
    text; `_` and the digits are name characters (so the generated variables `_`, `_2`, … are SYMBOL
    texts).  True of the AMR and default models with the generated lexer tables (`tableOK_amr`,
    `tableOK_default`; for AMR through the cheaper `TableFast`: every table role is a DECLARED role
    of the model and a ROLE text, `Proofs/TransformDecodeTables.lean`).
  * side conditions, on the graph each step is applied to (`SideDec`, decidable):
    `PushSrcOk` for `indicate_branches` (as in C12); `DerefSide` for `dereify_edges`: in its result
    every `Push` still names a variable and `Push(source)` sits on string targets — needed because
    `dereify_edges` removes variables (`exDerefPush`).  It is implied by the decidable condition
    `DerefPushIn` on the INPUT (`C12dec_derefSide_of_pushIn`: no surviving `Push` names a collapsed
    node; the markers moved onto a dereified triple `(s :role c)` contain `Push(s)` only if `c` is a
    string), in particular when there is no `Push` marker at all (`derefSide_of_noPush`); both hold
    for the decoded examples below.  `FreshSafe` and "no top-role triple in
    the input" are NOT needed for this clause.

  The four problem spots
  (a) ALIGNMENTS.  `WfGraph.noAlign` (inside `Hyps`) forbids alignment markers, because `C03_text` does.
      The theorems are therefore stated — honestly — for graphs WITHOUT alignments; they say nothing
      about aligned graphs (for which `reify_edges` turns a role alignment into an alignment of the new
      node label).  Covering them needs a text-level round trip with alignments, which does not exist.
      What is proved here: no transformation INTRODUCES an alignment (`EpiAll` of the result).
  (b) DUPLICATE TRIPLES are harmless: `WfGraph` does not ask `g.triples.Nodup` (only: one node label
      per variable).  `dereify_edges` may create a second copy of an existing triple (`exDup`); the
      theorems apply, the permutation in the conclusion is a MULTISET equality, and the real code
      agrees: `penman.decode(penman.encode(g))` of `(b / boy :mod 7 :mod 7)` gives both copies back.
      No `NoDupAfter` hypothesis is needed; nothing is false here.
  (c) new variables `_`, `_N` are SYMBOL texts (`srcOK_genName`, from `GenOK`); new roles come from the
      table (`TableOK`); the `:TOP` triples of `indicate_branches` have a variable as target
      (`atomOK_var`) and, for `Push(source)`, a variable with a node as source (`PushSrcOk`).
  (d) markers written by the transformations: `Push(v)` on the first reified triple — whose target is a
      string also in the inverted orientation (`appearsInverted_true`) —, the migrated markers on the
      last one (they cannot push the fresh variable), `Push(v)` / `POP` of `reify_attributes`:
      `run_markOK`, `arun_markOK`.

  (Infrastructure note: the lemma `AList.set_of_not_mem` of `Proofs/Transform/Basic.lean` was renamed
  `set_of_not_mem_xf` so that the transform proofs and `Props.C03Text` can be imported together.)

  Nothing is left unproved.
-/
import Penman.Proofs.TransformDecode
import Penman.Proofs.TransformDecodeTables
import Penman.Proofs.TransformDecodeDerefIn
import Penman.Props.C13
namespace Penman.C12dec
open Penman Penman.Spec Penman.C03Text Generated

/-- the hypotheses of `C03_text` on a graph, with the marker conditions on every entry of the table -/
def Hyps (cfg : LexCfg) (isSpace : Char → Bool) (m : Model) (g : Graph) : Prop :=
  Cfg.WfGraph m g ∧ GraphTextOK cfg isSpace m g ∧ EpiAll g ∧ Connected g

/-- "`g` encodes without error and decodes to itself": for every indentation and compactness the text
    of `g` decodes to a graph with the same top, the same variables, the same triples (as a multiset,
    after one de-inversion, constants by their written form), every decoded triple being the written
    form of a triple of `g` or its inversion, and the same metadata -/
def RoundTrip (cfg : LexCfg) (isSpace isAlpha : Char → Bool) (m : Model) (g : Graph) : Prop :=
  ∀ (i : Indent) (c : Bool), ∃ s g'', encode m g none i c = .ok s ∧
    decode cfg isSpace isAlpha m s = .ok g'' ∧ g''.getTop = g.getTop ∧
    (∀ x, x ∈ g''.variables ↔ x ∈ g.variables) ∧
    (g''.triples.map (Cfg.deinvert1 m g)).Perm ((g.triples.map writtenTriple).map (Cfg.deinvert1 m g)) ∧
    (∀ x ∈ g''.triples, ∃ t0 ∈ g.triples, x = writtenTriple t0 ∨ x = m.invert (writtenTriple t0)) ∧
    g''.metadata = g.metadata

section
variable {cfg : LexCfg} {isSpace : Char → Bool} {m : Model} {g : Graph}

theorem Hyps.decOK (h : Hyps cfg isSpace m g) : DecOK cfg isSpace m g := decOK_iff.mpr h
theorem DecOK.hyps (h : DecOK cfg isSpace m g) : Hyps cfg isSpace m g := decOK_iff.mp h

/-- `Hyps` gives every graph-side hypothesis of `C03_text` -/
theorem hyps_c03text (h : Hyps cfg isSpace m g) :
    Cfg.WfGraph m g ∧ GraphTextOK cfg isSpace m g ∧ Cfg.NoAlign g ∧ Cfg.PushVars g ∧ Cfg.PushSrcOK g ∧
    ∃ t, Cfg.topOf g none = some t ∧ t ∈ g.variables ∧ ∀ v ∈ g.variables, Cfg.Reach g t v := by
  have hd := h.decOK
  obtain ⟨t, hgt, htv, hr⟩ := connected_cfgReach hd.conn
  exact ⟨h.1, h.2.1, hd.noAlign, hd.pushVars, hd.pushSrcOK, t, by simpa [Cfg.topOf] using hgt, htv, hr⟩

/-- a graph satisfying `Hyps` decodes to itself (this is `C03_text` from the graph's own top) -/
theorem hyps_roundTrip (hcfg : FmtCfgWf cfg = true) (isAlpha : Char → Bool) (hw : ModelWf m)
    (hnoop : m.noop = false) (h : Hyps cfg isSpace m g) : RoundTrip cfg isSpace isAlpha m g :=
  fun i c => decOK_decodes hcfg isSpace isAlpha hw hnoop h.decOK i c

/-! ## 1. each transformation preserves the hypotheses of `C03_text` -/

theorem C12dec_reifyEdges (hm : ReifWf m) (htab : TableOK cfg m) (h : Hyps cfg isSpace m g) :
    ∃ g', reifyEdges m g = .ok g' ∧ Hyps cfg isSpace m g' ∧ g'.getTop = g.getTop := by
  obtain ⟨rev, st, _, _, hr⟩ := reifyEdges_result m g
  obtain ⟨h1, h2⟩ := reifyEdges_decOK hm htab h.decOK hr
  exact ⟨_, hr, h1.hyps, h2⟩

theorem C12dec_reifyAttributes (htab : TableOK cfg m) (h : Hyps cfg isSpace m g) :
    Hyps cfg isSpace m (reifyAttributes g) ∧ (reifyAttributes g).getTop = g.getTop :=
  ⟨(reifyAttributes_decOK htab h.decOK).1.hyps, (reifyAttributes_decOK htab h.decOK).2⟩

theorem C12dec_dereifyEdges (hm : ReifWf m) (htab : TableOK cfg m) (h : Hyps cfg isSpace m g)
    (hs : DerefSide m g) :
    ∃ g', dereifyEdges m g = .ok g' ∧ Hyps cfg isSpace m g' ∧ g'.getTop = g.getTop := by
  obtain ⟨g', hr⟩ := dereifyEdges_total m g
  obtain ⟨h1, h2⟩ := dereifyEdges_decOK hm htab h.decOK hs hr
  exact ⟨g', hr, h1.hyps, h2⟩

theorem C12dec_indicateBranches (htr : TopRoleOk m) (htab : TableOK cfg m) (h : Hyps cfg isSpace m g)
    (hs : PushSrcOk g) :
    ∃ g', indicateBranches m g = .ok g' ∧ Hyps cfg isSpace m g' ∧ g'.getTop = g.getTop := by
  obtain ⟨g', hr⟩ := indicateBranches_ok_iff.mpr (pushSrcOk_noErr hs)
  obtain ⟨h1, h2⟩ := indicateBranches_decOK htr htab h.decOK hs hr
  exact ⟨g', hr, h1.hyps, h2⟩

/-- the side condition of `dereify_edges` follows from a condition on its input -/
theorem C12dec_derefSide_of_pushIn (h : Hyps cfg isSpace m g) (hp : DerefPushIn m g) : DerefSide m g :=
  derefSide_of_pushIn h.2.2.1 hp

/-- any one of the four -/
theorem C12dec_step (hm : ReifWf m) (htr : TopRoleOk m) (htab : TableOK cfg m) (x : Xf)
    (h : Hyps cfg isSpace m g) (hs : SideDec m x g) :
    ∃ g', x.run m g = .ok g' ∧ Hyps cfg isSpace m g' ∧ g'.getTop = g.getTop := by
  obtain ⟨g', h1, h2, h3⟩ := step_decOK hm htr htab x g h.decOK hs
  exact ⟨g', h1, h2.hyps, h3⟩

/-- every program -/
theorem C12dec_program (hm : ReifWf m) (htr : TopRoleOk m) (htab : TableOK cfg m) (p : List Xf)
    (h : Hyps cfg isSpace m g) (hs : SideAlongDec m p g) :
    ∃ g', runProg m p g = .ok g' ∧ Hyps cfg isSpace m g' ∧ g'.getTop = g.getTop := by
  obtain ⟨g', h1, h2, h3⟩ := prog_decOK hm htr htab p g h.decOK hs
  exact ⟨g', h1, h2.hyps, h3⟩

/-! ## 2. the result decodes to itself -/

/-- **C12, "decodes to itself", one transformation** (any of the four): the result `g'` of the step
    encodes, and its text decodes to a graph with the top, variables, triples (multiset, one
    de-inversion, written constants) and metadata of `g'`. -/
theorem C12_decodes (hcfg : FmtCfgWf cfg = true) (isAlpha : Char → Bool) (hw : ModelWf m)
    (hnoop : m.noop = false) (hm : ReifWf m) (htr : TopRoleOk m) (htab : TableOK cfg m) (x : Xf)
    (h : Hyps cfg isSpace m g) (hs : SideDec m x g) {g' : Graph} (hrun : x.run m g = .ok g') :
    ∀ (i : Indent) (c : Bool), ∃ s g'', encode m g' none i c = .ok s ∧
      decode cfg isSpace isAlpha m s = .ok g'' ∧ g''.getTop = g'.getTop ∧
      (∀ x, x ∈ g''.variables ↔ x ∈ g'.variables) ∧
      (g''.triples.map (Cfg.deinvert1 m g')).Perm
        ((g'.triples.map writtenTriple).map (Cfg.deinvert1 m g')) ∧
      (∀ x ∈ g''.triples, ∃ t0 ∈ g'.triples, x = writtenTriple t0 ∨ x = m.invert (writtenTriple t0)) ∧
      g''.metadata = g'.metadata := by
  obtain ⟨g1, h1, h2, _⟩ := C12dec_step hm htr htab x h hs
  rw [hrun] at h1
  simp only [Except.ok.injEq] at h1
  subst h1
  exact hyps_roundTrip hcfg isAlpha hw hnoop h2

/-- each step succeeds (so `C12_decodes` is about something) and keeps the top -/
theorem C12_decodes_total (hcfg : FmtCfgWf cfg = true) (isAlpha : Char → Bool) (hw : ModelWf m)
    (hnoop : m.noop = false) (hm : ReifWf m) (htr : TopRoleOk m) (htab : TableOK cfg m) (x : Xf)
    (h : Hyps cfg isSpace m g) (hs : SideDec m x g) :
    ∃ g', x.run m g = .ok g' ∧ g'.getTop = g.getTop ∧ RoundTrip cfg isSpace isAlpha m g' := by
  obtain ⟨g', h1, h2, h3⟩ := C12dec_step hm htr htab x h hs
  exact ⟨g', h1, h3, hyps_roundTrip hcfg isAlpha hw hnoop h2⟩

theorem C12_decodes_reifyEdges (hcfg : FmtCfgWf cfg = true) (isAlpha : Char → Bool) (hw : ModelWf m)
    (hnoop : m.noop = false) (hm : ReifWf m) (htab : TableOK cfg m) (h : Hyps cfg isSpace m g)
    {g' : Graph} (hrun : reifyEdges m g = .ok g') : RoundTrip cfg isSpace isAlpha m g' :=
  hyps_roundTrip hcfg isAlpha hw hnoop (reifyEdges_decOK hm htab h.decOK hrun).1.hyps

theorem C12_decodes_reifyAttributes (hcfg : FmtCfgWf cfg = true) (isAlpha : Char → Bool) (hw : ModelWf m)
    (hnoop : m.noop = false) (htab : TableOK cfg m) (h : Hyps cfg isSpace m g) :
    RoundTrip cfg isSpace isAlpha m (reifyAttributes g) :=
  hyps_roundTrip hcfg isAlpha hw hnoop (C12dec_reifyAttributes htab h).1

theorem C12_decodes_dereifyEdges (hcfg : FmtCfgWf cfg = true) (isAlpha : Char → Bool) (hw : ModelWf m)
    (hnoop : m.noop = false) (hm : ReifWf m) (htab : TableOK cfg m) (h : Hyps cfg isSpace m g)
    (hs : DerefSide m g) {g' : Graph} (hrun : dereifyEdges m g = .ok g') :
    RoundTrip cfg isSpace isAlpha m g' :=
  hyps_roundTrip hcfg isAlpha hw hnoop (dereifyEdges_decOK hm htab h.decOK hs hrun).1.hyps

theorem C12_decodes_indicateBranches (hcfg : FmtCfgWf cfg = true) (isAlpha : Char → Bool) (hw : ModelWf m)
    (hnoop : m.noop = false) (htr : TopRoleOk m) (htab : TableOK cfg m) (h : Hyps cfg isSpace m g)
    (hs : PushSrcOk g) {g' : Graph} (hrun : indicateBranches m g = .ok g') :
    RoundTrip cfg isSpace isAlpha m g' :=
  hyps_roundTrip hcfg isAlpha hw hnoop (indicateBranches_decOK htr htab h.decOK hs hrun).1.hyps

/-- **C12, "decodes to itself", every composition**: every program of transformations runs without
    error on a graph satisfying `Hyps` (side conditions checked along the way), keeps the top, and
    its result encodes and decodes to itself. -/
theorem C12_decodes_program (hcfg : FmtCfgWf cfg = true) (isAlpha : Char → Bool) (hw : ModelWf m)
    (hnoop : m.noop = false) (hm : ReifWf m) (htr : TopRoleOk m) (htab : TableOK cfg m) (p : List Xf)
    (h : Hyps cfg isSpace m g) (hs : SideAlongDec m p g) :
    ∃ g', runProg m p g = .ok g' ∧ g'.getTop = g.getTop ∧
      ∀ (i : Indent) (c : Bool), ∃ s g'', encode m g' none i c = .ok s ∧
        decode cfg isSpace isAlpha m s = .ok g'' ∧ g''.getTop = g'.getTop ∧
        (∀ x, x ∈ g''.variables ↔ x ∈ g'.variables) ∧
        (g''.triples.map (Cfg.deinvert1 m g')).Perm
          ((g'.triples.map writtenTriple).map (Cfg.deinvert1 m g')) ∧
        (∀ x ∈ g''.triples, ∃ t0 ∈ g'.triples, x = writtenTriple t0 ∨ x = m.invert (writtenTriple t0)) ∧
        g''.metadata = g'.metadata := by
  obtain ⟨g', h1, h2, h3⟩ := C12dec_program hm htr htab p h hs
  exact ⟨g', h1, h3, hyps_roundTrip hcfg isAlpha hw hnoop h2⟩

/-- programs without `dereify_edges` and `indicate_branches` need no side condition -/
theorem sideAlongDec_reify (p : List Xf) (hp : ∀ x ∈ p, x = .reifyEdges ∨ x = .reifyAttributes) :
    ∀ g, SideAlongDec m p g := by
  induction p with
  | nil => intro g; trivial
  | cons x r ih =>
    intro g
    refine ⟨?_, fun g' _ => ih (fun y hy => hp y (by simp [hy])) g'⟩
    rcases hp x (by simp) with rfl | rfl <;> trivial

end

/-! ## the generated tables -/

/-- every role of the AMR reification table (and `:TOP`) is a declared role … -/
theorem amr_tableRoles_declared : ∀ r ∈ tableRoles amrModel, amrModel.hasRole1 r = true := by
  decide +kernel
/-- … and a colon-prefixed ROLE text without `~` -/
theorem amr_tableRoles_text : ∀ r ∈ tableRoles amrModel,
    r.head? = some ':' ∧ '~' ∉ r ∧ roleB lexCfg r = true := by decide +kernel
theorem amr_concepts : ∀ rf ∈ amrModel.reifs, ConceptOK lexCfg rf.concept := by decide +kernel

theorem tableOK_amr : TableOK lexCfg amrModel :=
  tableOK_of_fast ⟨by decide, fun r hr => ⟨amr_tableRoles_declared r hr, amr_tableRoles_text r hr⟩,
    amr_concepts, by decide⟩
theorem tableOK_default : TableOK lexCfg defaultModel := by decide +kernel
theorem reifWf_amr : ReifWf amrModel ∧ TopRoleOk amrModel := by decide +kernel
theorem reifWf_default : ReifWf defaultModel ∧ TopRoleOk defaultModel := by decide +kernel

/-! ## non-vacuity, examples, counterexamples -/

section Examples

/-- Python's `str.isspace` on the generated table -/
def isSp (c : Char) : Bool := spaceChars.contains c

private def tr (s r t : String) : Triple := ⟨s.toList, r.toList, .str t.toList⟩

/-- `(w / want-01 :ARG0 (b / boy) :mod 5 :ARG1 (g / go-02 :ARG0 b))` as `penman.decode` gives it
    under the AMR model (triples, top and markers replayed on the real code) -/
def exWant2 : Graph :=
  Graph.mk' [tr "w" ":instance" "want-01", tr "w" ":ARG0" "b", tr "b" ":instance" "boy",
      tr "w" ":mod" "5", tr "w" ":ARG1" "g", tr "g" ":instance" "go-02", tr "g" ":ARG0" "b"]
    (some "w".toList)
    [(tr "w" ":instance" "want-01", []), (tr "w" ":ARG0" "b", [.push "b".toList]),
     (tr "b" ":instance" "boy", [.pop]), (tr "w" ":mod" "5", []),
     (tr "w" ":ARG1" "g", [.push "g".toList]), (tr "g" ":instance" "go-02", []),
     (tr "g" ":ARG0" "b", [.pop])] []

theorem exWant2_connected : Connected exWant2 := by
  refine ⟨"w".toList, by decide, ⟨tr "w" ":instance" "want-01", by decide, rfl⟩, ?_⟩
  have hb : Reach exWant2 "w".toList "b".toList :=
    Reach.single ⟨tr "w" ":ARG0" "b", by decide, by decide, Or.inl ⟨rfl, rfl⟩⟩
      ⟨tr "b" ":instance" "boy", by decide, rfl⟩
  have hg : Reach exWant2 "w".toList "g".toList :=
    Reach.single ⟨tr "w" ":ARG1" "g", by decide, by decide, Or.inl ⟨rfl, rfl⟩⟩
      ⟨tr "g" ":instance" "go-02", by decide, rfl⟩
  intro t ht
  have : t.src = "w".toList ∨ t.src = "b".toList ∨ t.src = "g".toList := by
    revert t; decide
  rcases this with h | h | h <;> rw [h]
  · exact Reach.refl
  · exact hb
  · exact hg

theorem exWant2_decOKd : DecOKd lexCfg isSp amrModel exWant2 := by decide +kernel

theorem exWant2_hyps : Hyps lexCfg isSp amrModel exWant2 :=
  (DecOK.of_d exWant2_decOKd exWant2_connected).hyps

/-- its marker table is a dictionary keyed by its triples, so `EpiAll` is just C03's three conditions -/
example : EpiKeysNodup exWant2 ∧ (∀ k ∈ AList.keys exWant2.epidata, k ∈ exWant2.triples) ∧
    Cfg.NoAlign exWant2 ∧ Cfg.PushVars exWant2 ∧ Cfg.PushSrcOK exWant2 := by decide +kernel

/-- the side conditions of the command-line pipeline hold along the way -/
theorem exWant2_side :
    SideAlongDec amrModel [.reifyEdges, .reifyAttributes, .indicateBranches] exWant2 := by
  refine ⟨trivial, fun g1 h1 => ⟨trivial, fun g2 h2 => ⟨?_, fun _ _ => trivial⟩⟩⟩
  have e1 : g1 = (reifyEdges amrModel exWant2).toOption.getD default := by
    simp only [Xf.run] at h1; rw [h1]; rfl
  simp only [Xf.run, Except.ok.injEq] at h2
  subst h2 e1
  show PushSrcOk _
  decide +kernel

/-- **non-vacuity of `C12_decodes_program`**: the pipeline `reify-edges, reify-attributes,
    indicate-branches` on `exWant2` under AMR; every hypothesis by `decide` (connectivity by hand) -/
example : ∃ g', runProg amrModel [.reifyEdges, .reifyAttributes, .indicateBranches] exWant2 = .ok g' ∧
    g'.getTop = some "w".toList ∧ RoundTrip lexCfg isSp isAsciiAlpha amrModel g' := by
  obtain ⟨g', h1, h2, h3⟩ := C12_decodes_program (isSpace := isSp) C01.fmt_cfg_wf isAsciiAlpha
    C13.modelWf_amr (by decide) reifWf_amr.1 reifWf_amr.2 tableOK_amr
    [.reifyEdges, .reifyAttributes, .indicateBranches] exWant2_hyps exWant2_side
  exact ⟨g', h1, h2.trans (by decide), h3⟩

/-- … whose result is what the real code returns (replayed: 14 triples, two new nodes `_`, `_2`) -/
example : ((runProg amrModel [.reifyEdges, .reifyAttributes, .indicateBranches] exWant2).toOption.map
    (·.triples)) =
    some [tr "w" ":instance" "want-01", tr "w" ":TOP" "b", tr "w" ":ARG0" "b", tr "b" ":instance" "boy",
      tr "w" ":TOP" "_", tr "_" ":ARG1" "w", tr "_" ":instance" "have-mod-91",
      tr "_" ":TOP" "_2", tr "_" ":ARG2" "_2", tr "_2" ":instance" "5",
      tr "w" ":TOP" "g", tr "w" ":ARG1" "g", tr "g" ":instance" "go-02", tr "g" ":ARG0" "b"] := by
  decide +kernel

/-- every single step applies to `exWant2` (non-vacuity of `C12_decodes`) -/
example (x : Xf) (hx : x ≠ .dereifyEdges) : ∃ g', x.run amrModel exWant2 = .ok g' ∧
    RoundTrip lexCfg isSp isAsciiAlpha amrModel g' := by
  have hs : SideDec amrModel x exWant2 := by
    cases x with
    | reifyEdges => trivial
    | reifyAttributes => trivial
    | dereifyEdges => exact absurd rfl hx
    | indicateBranches => show PushSrcOk _; decide +kernel
  obtain ⟨g', h1, _, h3⟩ := C12_decodes_total (isSpace := isSp) C01.fmt_cfg_wf isAsciiAlpha
    C13.modelWf_amr (by decide) reifWf_amr.1 reifWf_amr.2 tableOK_amr x exWant2_hyps hs
  exact ⟨g', h1, h3⟩

/-! ### `dereify_edges`; duplicates -/

/-- `(b / boy :mod 7 :ARG1-of (h / have-mod-91 :ARG2 7))` as decoded under AMR: collapsing `h` creates
    a SECOND copy of `(b :mod 7)` -/
def exDup : Graph :=
  Graph.mk' [tr "b" ":instance" "boy", tr "b" ":mod" "7", tr "h" ":ARG1" "b",
      tr "h" ":instance" "have-mod-91", tr "h" ":ARG2" "7"] (some "b".toList)
    [(tr "b" ":instance" "boy", []), (tr "b" ":mod" "7", []), (tr "h" ":ARG1" "b", [.push "h".toList]),
     (tr "h" ":instance" "have-mod-91", []), (tr "h" ":ARG2" "7", [.pop])] []

theorem exDup_connected : Connected exDup := by
  refine ⟨"b".toList, by decide, ⟨tr "b" ":instance" "boy", by decide, rfl⟩, ?_⟩
  have hh : Reach exDup "b".toList "h".toList :=
    Reach.single ⟨tr "h" ":ARG1" "b", by decide, by decide, Or.inr ⟨rfl, rfl⟩⟩
      ⟨tr "h" ":instance" "have-mod-91", by decide, rfl⟩
  intro t ht
  have : t.src = "b".toList ∨ t.src = "h".toList := by
    revert t; decide
  rcases this with h | h <;> rw [h]
  · exact Reach.refl
  · exact hh

theorem exDup_hyps : Hyps lexCfg isSp amrModel exDup :=
  (DecOK.of_d (by decide +kernel) exDup_connected).hyps

example : DerefSide amrModel exDup ∧ DerefPushIn amrModel exDup := by decide +kernel

/-- the result has the duplicate (as in the real code: `[(b :instance boy), (b :mod 7), (b :mod 7)]`,
    markers `{(b :mod 7): [POP]}`) … -/
example : (dereifyEdges amrModel exDup).toOption.map (fun g' => (g'.triples, g'.epidata)) =
    some ([tr "b" ":instance" "boy", tr "b" ":mod" "7", tr "b" ":mod" "7"],
      [(tr "b" ":instance" "boy", []), (tr "b" ":mod" "7", [.pop])]) := by decide +kernel

/-- … and **decodes to itself, both copies** (the permutation is a multiset equality): problem spot
    (b) is not a problem, and `C12_decodes` is non-vacuous for `dereify_edges` -/
example : ∃ g', dereifyEdges amrModel exDup = .ok g' ∧ ¬ g'.triples.Nodup ∧
    RoundTrip lexCfg isSp isAsciiAlpha amrModel g' := by
  obtain ⟨g', h1, _, h3⟩ := C12_decodes_total (isSpace := isSp) C01.fmt_cfg_wf isAsciiAlpha
    C13.modelWf_amr (by decide) reifWf_amr.1 reifWf_amr.2 tableOK_amr .dereifyEdges exDup_hyps
    (show DerefSide amrModel exDup by decide +kernel)
  refine ⟨g', h1, ?_, h3⟩
  have e : g' = (dereifyEdges amrModel exDup).toOption.getD default := by
    simp only [Xf.run] at h1; rw [h1]; rfl
  subst e
  decide +kernel

/-! ### the side condition of `dereify_edges` is not implied -/

/-- the same node `h`, with a stale `Push(h)` left on the node label of `b` (allowed by `PushVars`:
    `h` is a variable): after `dereify_edges` the marker names no variable any more.
    (The real `configure` ignores a `Push` on a node label, so here `PushVars` — a hypothesis of C03 /
    C06 — is merely sufficient; replayed: the result encodes to `(b / boy :mod 7)` and decodes back.) -/
def exDerefPush : Graph :=
  Graph.mk' [tr "b" ":instance" "boy", tr "h" ":ARG1" "b", tr "h" ":instance" "have-mod-91",
      tr "h" ":ARG2" "7"] (some "b".toList)
    [(tr "b" ":instance" "boy", [.push "h".toList]), (tr "h" ":ARG1" "b", [.push "h".toList]),
     (tr "h" ":instance" "have-mod-91", []), (tr "h" ":ARG2" "7", [.pop])] []

example : DecOKd lexCfg isSp amrModel exDerefPush ∧ ¬ DerefSide amrModel exDerefPush ∧
    ¬ DerefPushIn amrModel exDerefPush := by decide +kernel
example : ((dereifyEdges amrModel exDerefPush).toOption.map fun g' => decide (Cfg.PushVars g')) =
    some false := by decide +kernel

/-! ### stale marker entries matter: why `EpiAll` speaks of every entry -/

/-- `(a / x :ARG0 (b / y))` with a marker entry for the triple `(a :TOP b)`, which is NOT a triple of the
    graph: C03's `NoAlign` holds, `indicate_branches` creates that triple, and the result violates it -/
def exStale : Graph :=
  Graph.mk' [tr "a" ":instance" "x", tr "a" ":ARG0" "b", tr "b" ":instance" "y"] (some "a".toList)
    [(tr "a" ":ARG0" "b", [.push "b".toList]), (tr "b" ":instance" "y", [.pop]),
     (tr "a" ":TOP" "b", [.aln none [1]])] []

example : Cfg.NoAlign exStale ∧ Cfg.PushVars exStale ∧ Cfg.PushSrcOK exStale ∧ ¬ EpiAll exStale ∧
    PushSrcOk exStale := by decide +kernel
example : ((indicateBranches amrModel exStale).toOption.map fun g' => decide (Cfg.NoAlign g')) =
    some false := by decide +kernel

/-! ### the hypotheses exclude something -/

/-- an alignment marker, a `Push` of a non-variable, a role with `~`: not `Hyps` -/
example : ¬ EpiAll (Graph.mk' [tr "a" ":instance" "x"] none [(tr "a" ":instance" "x", [.aln none [1]])] []) := by
  decide
example : ¬ EpiAll (Graph.mk' [tr "a" ":instance" "x", tr "a" ":mod" "7"] none
    [(tr "a" ":mod" "7", [.push "7".toList])] []) := by decide
example : ¬ TripleOK lexCfg amrModel (tr "a" ":mod~1" "7") := by decide +kernel

end Examples

end Penman.C12dec

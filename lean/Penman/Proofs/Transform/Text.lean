/-
  Penman.Proofs.Transform.Text — `configure` only looks at the triples, the
  top, the variables, the metadata and the per-triple marker lists; hence the
  marker-level inverse theorem gives the identical tree (and encoded text).
-/
import Penman.Proofs.Transform.Epidata
namespace Penman

theorem preconfigure_congr (m : Model) {ep ep' : Epidata} : ∀ (l : List Triple) (pushed : List Str),
    (∀ t ∈ l, (AList.get? ep' t).getD [] = (AList.get? ep t).getD []) →
    preconfigure m ep' l pushed = preconfigure m ep l pushed
  | [], _, _ => rfl
  | t :: r, pushed, h => by
    simp only [preconfigure, h t (by simp)]
    congr 1
    funext x
    obtain ⟨tr', push, epis, pops, pushed'⟩ := x
    simp only
    rw [preconfigure_congr m r pushed' (fun t ht => h t (by simp [ht]))]

/-- `configure` depends on the graph only through these observations -/
theorem configure_congr (m : Model) {g g' : Graph} (top : Option Str)
    (ht : g'.triples = g.triples) (hv : g'.variables = g.variables) (hgt : g'.getTop = g.getTop)
    (hmd : g'.metadata = g.metadata)
    (hep : ∀ t ∈ g.triples, (AList.get? g'.epidata t).getD [] = (AList.get? g.epidata t).getD []) :
    configure m g' top = configure m g top := by
  unfold configure
  rw [ht, hv, hgt, hmd, preconfigure_congr m g.triples [] hep]

theorem variables_eq_of {g g' : Graph} (h1 : g'.top = g.getTop) (h2 : g'.triples = g.triples) :
    g'.variables = g.variables := by
  unfold Graph.variables
  rw [h1, h2]
  cases htop : g.top with
  | some x => simp [Graph.getTop, htop]
  | none =>
    cases hl : g.triples with
    | nil => simp [Graph.getTop, htop, hl]
    | cons a r => simp [Graph.getTop, htop, hl, dedup]

end Penman
